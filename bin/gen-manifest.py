#!/usr/bin/env python3
"""Regenerates /verif/MANIFEST.json from the table below (kept next to the checks so the two stay in sync)."""
import json, os, sys

ROOT = os.path.dirname(os.path.dirname(os.path.abspath(__file__)))

TRUST = ("Sampling, not proof. Trusted base: the harness itself (SimDisk == Cursor self-check at start-up, own CRC-32, "
         "independent ZIP parser/builder written from APPNOTE), the codec and crypto primitive crates shared with the crate under test, rustc. ")

CHECKS = {
    "C01": dict(level="exploration", ref="DESIGN.md §4 C01",
        text="Seeded search over writer programs x sink short-write schedules x read-back short-read schedules x caller buffer sizes; each program is executed twice on simulated disks (finish / drop), images must be byte-identical and the crate's seekable reader must agree field-by-field and byte-by-byte with a reference model. Exploration is the right level: the space (programs x schedules) is unbounded and the property is a round trip through real codecs.",
        note=TRUST + "Names/comments embedding record signatures are skipped by a computed ambiguity predicate (R2).",
        tech="deterministic simulation: seeded program + I/O-schedule search against a reference model (finish vs drop crash point)"),
    "C02": dict(level="exploration", ref="DESIGN.md §4 C02",
        text="Same simulated runs over the full writer alphabet (extra data, aligned, ZipCrypto, raw copy, append rounds, over-long fields); every archive the writer reports as successful is judged by an independent strict parser (Appendix D rules), and unrepresentable inputs must be rejected. Exploration over programs and schedules.",
        note=TRUST + "Literal 0xFFFF/0xFFFFFFFF without ZIP64 is accepted as the writer's thresholds produce it.",
        tech="deterministic simulation: seeded program + I/O-schedule search judged by an independent APPNOTE parser"),
}

NOT_APPLICABLE = {
    "C06": "pure function from one string to a path: no I/O, state, schedule, fault or history for a simulator to control; the property's own quantifier is bounded enumeration (model checking / exhaustive testing), not simulation (DESIGN.md §6)",
    "C18": "pure arithmetic on 2^32 DOS date/time words; decided by exhaustive enumeration or proof, nothing depends on an interleaving, fault or history (DESIGN.md §6)",
    "C19": "pure bytes->string decoding through a flag and a 128-entry table; exhaustive over 256 byte values x 2 modes, no schedule/fault dimension (DESIGN.md §6)",
}

PENDING = "check not built yet in this commit (construction order in DESIGN.md §8); will be claimed once its scenario exists"

def main():
    props = [json.loads(l) for l in open(os.path.join(ROOT, "properties.jsonl"))]
    ids = [p["id"] for p in props]
    checks = []
    for pid in ids:
        if pid in CHECKS:
            c = CHECKS[pid]
            checks.append({
                "property_id": pid,
                "quick_cmd": f"bin/check {pid} --tier quick",
                "thorough_cmd": f"bin/check {pid} --tier thorough",
                "evidence_file": f"/verif/evidence/{pid}.json",
                "replay_cmd_template": f"bin/check {pid} --replay {{path}}",
                "engine": "zipsim",
                "level_claimed": {"category": c["level"], "text": c["text"], "design_ref": c["ref"]},
                "level_note": c["note"],
                "technique": c["tech"],
            })
    na = []
    for pid in ids:
        if pid in CHECKS:
            continue
        na.append({"property_id": pid, "reason": NOT_APPLICABLE.get(pid, PENDING)})
    hooks_commits = []
    hc = os.path.join(ROOT, "hooks_commits.txt")
    if os.path.exists(hc):
        hooks_commits = [l.strip() for l in open(hc) if l.strip()]
    m = {
        "version": 1,
        "setup_cmd": "bin/setup",
        "hooks": {
            "guard": "zip_rs_zip_verif",
            "enable": "RUSTFLAGS='--cfg zip_rs_zip_verif' through the shadow manifest /verif/sim-shuttle (C20-B only); every other check builds /repo as shipped, with no cfg",
            "baseline_off_cmd": "cd /repo && cargo test --workspace --no-fail-fast --offline",
            "source_commits": hooks_commits,
            "add_only": True,
        },
        "engines": [{"name": "zipsim", "path": "/verif/sim", "serves_properties": [c["property_id"] for c in checks],
                     "kind_free_text": "single-process deterministic simulator: seeded workload generator, simulated storage/stream layer (SimDisk/SimStream) owning every I/O decision and fault, reference model + independent ZIP implementation as oracles, worker-process isolation, shrinking, replay files"}],
        "checks": checks,
        "not_applicable": na,
        "notes": "All checks honour VERIF_SEED (default 20260929) and VERIF_TIER. Exit 0 = held on everything explored, 1 = VIOLATION line(s) with replay file, 2 = harness error. Known findings: /verif/known_findings.json.",
    }
    json.dump(m, open(os.path.join(ROOT, "MANIFEST.json"), "w"), indent=1)
    print(f"MANIFEST.json: {len(checks)} checks, {len(na)} not_applicable")

if __name__ == "__main__":
    main()
