#!/usr/bin/env python3
"""Regenerates /verif/MANIFEST.json from the table below (kept next to the checks so the two stay in sync)."""
import json, os, sys

ROOT = os.path.dirname(os.path.dirname(os.path.abspath(__file__)))

TRUST = ("Sampling, not proof. Trusted base: the harness itself (SimDisk == Cursor self-check at start-up, own CRC-32, "
         "independent ZIP parser/builder written from APPNOTE), the codec and crypto primitive crates shared with the crate under test, rustc. ")

CHECKS = {
    "C01": dict(level="exploration", ref="DESIGN.md §4 C01",
        text="Seeded search over writer programs x sink short-write schedules x read-back short-read schedules x caller buffer sizes; each program is executed twice on simulated disks (finish / drop), the images must be byte-identical and the crate's seekable reader must agree field-by-field and byte-by-byte with a reference model. Exploration is the right level: the space (programs x schedules) is unbounded and the property is a round trip through real codecs. One run in six steers a structure of the finished archive (end record, directory start, last local header / data start) onto a block boundary m*2^j-d by pre-positioning the sink after a first execution.",
        note=TRUST + "Names/comments embedding record signatures are skipped by a computed ambiguity predicate (R2).",
        tech="deterministic simulation: seeded program + I/O-schedule search against a reference model (finish vs drop crash point)"),
    "C02": dict(level="exploration", ref="DESIGN.md §4 C02",
        text="Same simulated runs over the full writer alphabet (extra data, aligned, ZipCrypto, raw copy, append rounds, over-long fields); every archive the writer reports as successful is judged by an independent strict parser (Appendix D rules), by CPython's zipfile and (where it applies) Info-ZIP unzip -t, and unrepresentable inputs must be rejected; the same programs also run on a sparse simulated disk around the 4 GiB / 65535-entry limits (ZIP64 clause), with passwords and the path-taking calls drawn for every entry-creating call. Exploration over programs and schedules. The validator also judges the destinations of raw copies of ZIP64-sized entries (rawcopy_huge: ZIP64 records, their order, local/central agreement).",
        note=TRUST + "Literal 0xFFFF/0xFFFFFFFF without ZIP64 is accepted where no ZIP64 record is present.",
        tech="deterministic simulation: seeded program + I/O-schedule search judged by an independent APPNOTE parser"),
    "C03": dict(level="exploration", ref="DESIGN.md §4 C03",
        text="Seeded search over layout descriptors of an independent reference builder (every degree of freedom C03 lists is a seeded choice) read through the crate's seekable reader on a simulated disk with short-read schedules; the builder's own record is the oracle for every accessor, offset and byte.",
        note=TRUST + "Layouts that are ambiguous for any backward-searching reader (signature bytes at the probe positions) are skipped and counted.",
        tech="deterministic simulation: seeded foreign-archive layouts + short-read schedules against the builder's record"),
    "C04": dict(level="fault_enumeration", ref="DESIGN.md §4 C04",
        text="Storage damage confined to an entry's data extent or declared CRC, then the entry is read to EOF under short-read schedules with drawn caller buffers through both readers: for small seed images EVERY single-bit flip of every data byte and of the 32 CRC bits is enumerated; larger images get sampled multi-site damage, truncated payloads, swapped payloads and lost CRC back-patches. Oracle: a read that completes returned bytes whose CRC equals the declared one (AE-2 exempt). For ZipCrypto targets a history on ONE archive handle (right password to the end, then wrong passwords that pass the one-byte check) is part of every case: each completed read owes the checksum.",
        note=TRUST + "The CRC of the returned bytes is recomputed by the harness's own CRC-32.",
        tech="deterministic simulation: enumerated bit-rot faults on simulated storage, read under seeded short-read schedules"),
    "C05": dict(level="exploration", ref="DESIGN.md §4 C05",
        text="Crash-truncated, torn, bit-rotted, spliced and structure-aware lying images (every prefix, every representative byte value at every structural offset, every header field x boundary value of small seeds are enumerated; random multi-site damage and arbitrary bytes are sampled) are driven through the whole reading surface (seekable reader, raw/decrypt/by-name access, all accessors, the provided methods of std::io::Read (read_to_end, read_to_string, read_exact, io::copy, bytes) where the real output is bounded by the input, streaming reader, visitor, open-for-append) in monitored worker processes; header fields are lied about one at a time and in combinations that vouch for each other (entry count + directory size, offset + size, both sizes, all variable lengths); panics (overflow checks on), aborts, step-budget overruns and heap blow-ups while opening are violations. Seeds carry the extra records real archivers write (Unicode path/comment with the CRC of the header's own name, UT, ux, NTFS, ASi, ...), well formed or claiming a length other than their body's. A further seed kind repeats one record signature or marker up to 300000 times in front of a small archive (work per marker: stack, steps). An enumerated plan deletes 1..20 bytes and inserts 1/2/4/8 bytes at every offset of the last 160 bytes of small seeds (records cut short, everything behind shifted).",
        note=TRUST + "Heap bound 1024 x len + 8 MiB by a counting allocator; step budget 4M + 16 x len I/O calls; wall-clock watchdog for loops without I/O.",
        tech="deterministic simulation: seeded + enumerated storage faults (crash points, bit rot, lying fields) with panic/abort/step/heap monitors"),
    "C07": dict(level="exploration", ref="DESIGN.md §4 C07",
        text="Archives with hostile and benign names are extracted by both extractors from a simulated source (short reads, optional reader fault) into a fresh 16-level-deep sandbox on the real file system; the sandbox outside the target is snapshotted before/after (confinement), unsafe names must yield Err, and for safe consistent names the tree, bytes and permission bits must equal the reference tree. Names come with slashes and with backslashes, directory entries may follow their children or exist already, older files (longer, shorter, equally long) may already sit at the paths of file entries, and the target is named absolutely or by relative spellings ('../target', './target', 'x/../target', '.'). The central directory of built archives may list the entries in another order than they lie in the file; their 'version made by' host is drawn (DOS, Unix, others). One clean extraction in three runs under effective uid 65534 (the harness itself is root, for whom the kernel strips no set-uid / set-gid bit and refuses nothing).",
        note=TRUST + "The sink is the real kernel FS on purpose (confinement is about what the kernel does with the path); even a real escape cannot leave the sandbox.",
        tech="deterministic simulation of the archive source + sandboxed real-FS snapshot oracle over a seeded hostile-name grammar"),
    "C08": dict(level="exploration", ref="DESIGN.md §4 C08",
        text="A sparse simulated disk makes the 16/32-bit limits cheap to hit exactly: sinks pre-positioned around 2^32 (header/directory offsets at 2^32-2..2^32+1), Stored payloads of 2^32-2..2^32+1 bytes with and without large_file, 65534..70000 entries, combinations with comments and append rounds, plus foreign archives with ZIP64 fields forced on small files in all subsets; model equality through the crate's reader and the independent validator's ZIP64 rules. Raw copies of ZIP64-sized entries (rawcopy_huge) and a compressed 4 GiB entry behind a header offset beyond 4 GiB are part of the quick tier.",
        note=TRUST + "Huge payloads are zeros with marker bytes (sparse); compressing methods across 4 GiB and 5 GiB payloads only in the thorough tier.",
        tech="deterministic simulation on a sparse simulated disk, boundary-directed seeded search against model + independent parser"),
    "C09": dict(level="exploration", ref="DESIGN.md §4 C09",
        text="One program / archive, many fragmentation schedules: uniform chunk 1..K, BufReader-like refills, PRNG schedules, and ONE short transfer at EVERY I/O call index (enumerated for small cases) on sink, seekable source and non-seekable stream, plus caller read buffers (zero-length included) and caller write splits; every re-execution must reproduce the unfragmented outcome (image byte-identical / decoded results equal). One case in eight also writes 150-270 KB of incompressible data to a compressing entry in one piece, as a gathered write of two large slices and in 4 KiB pieces: all three must decode to the bytes written.",
        note=TRUST + "Plain, ZipCrypto (crate-written and independently encrypted) and AE-1/AE-2 entries.",
        tech="deterministic simulation: schedule exploration (the I/O fragmentation schedule is the quantified variable)"),
    "C10": dict(level="exploration", ref="DESIGN.md §4 C10",
        text="The same bytes are read by the seekable reader (reference) and front-to-back from a non-seekable simulated stream with short reads; per entry a drawn consumption pattern (0, 1, k, all-1, all, all+reads after EOF) forces the drop-time drain to resynchronise from every decoder state; the visitor API must deliver files in order, then the central metadata once per entry in order; encrypted / data-descriptor entries must be refused; with bit rot inside ONE entry's data every other entry must still arrive exactly as through the seekable reader. A second scenario (stream_huge) streams writer output from the sparse disk: entries of 2^32-2 .. 2^32+1 bytes (large_file only where required, or always), archives starting around 4 GiB, more than 65535 entries.",
        note=TRUST + "The seekable reader's own fidelity is established by C01/C03.",
        tech="deterministic simulation: seeded histories of partial consumption on a simulated non-seekable stream vs the seekable reader"),
    "C11": dict(level="fault_enumeration", ref="DESIGN.md §4 C11",
        text="For each seeded program (writer sequences incl. append/raw copy/extra data/encryption; open+read-all incl. ZIP64/ZipCrypto/AES/junk prefix, comparing names, comments, extra data, counts and contents; the streaming loop; the streaming visitor with its central metadata) a failure-free run, then one run per I/O call index k and fault kind (hard error, sticky error, EINTR, zero-length write, early EOF) with the fault at k; remaining operations, retried reads on the failed entry, finish and Drop still run. Oracle: no panic/abort/hang; some call reported an error OR the outcome equals the failure-free run semantically; and if finish() reports success after an error was reported, the archive is structurally valid and lists no entry whose creating call failed. A further program kind opens archives with more than 65535 entries under a fault at each of the first 64 calls (entry count, comment, names compared).",
        note=TRUST + "k is enumerated completely when the failure-free run has <= 400 I/O calls, otherwise first/last 100 plus a seeded sample; pairs of faults in the thorough tier.",
        tech="deterministic simulation: fault enumeration over every I/O call index of seeded programs"),
    "C12": dict(level="exploration", ref="DESIGN.md §4 C12, Appendix C",
        text="Random call sequences (depth up to 200) over the full writer alphabet, legal or not, with small parameter domains; a writer state-machine model predicts MustOk / MustErr / Either per call; whenever finish() succeeds the archive must validate independently and contain exactly the entries and bytes the model accumulated. The exhaustive bounded-depth sweep the property also mentions is model checking and is not claimed. The name domain includes names of 65533..65537 bytes ending in a letter or a separator.",
        note=TRUST + "After a failed state-changing call the model constrains only what the property states (R6).",
        tech="deterministic simulation: seeded call-sequence search against an executable writer state-machine model"),
    "C13": dict(level="exploration", ref="DESIGN.md §4 C13",
        text="The durable image on the simulated disk survives 'process restarts': histories of 0..R rounds of new_append + entries + finish/drop on bases from the crate's writer and from the independent builder (data descriptors, CP437 names, DOS made-by, junk prefix, forced ZIP64 records, per-file comments); after the history every previous unencrypted entry must be unchanged and the new ones present.",
        note=TRUST + "One known finding (D12, archive shrinks on append) is matched semantically and reported as KNOWN-FINDING.",
        tech="deterministic simulation: seeded restart histories on durable simulated storage against an accumulated reference model"),
    "C14": dict(level="exploration", ref="DESIGN.md §4 C14",
        text="Two simulated disks (source archive, destination writer); programs interleave raw copies (by index / name / raw, optional rename, first/last/only positions) with ordinary entries under short-read/short-write schedules; the destination extent must be byte-identical to the source's, metadata equal, neighbours intact, and the archive must validate independently. A second scenario (rawcopy_huge) raw-copies ZIP64-sized source entries laid down by hand on the sparse disk (both sizes beyond 4 GiB and different, only one beyond, exactly 0xFFFFFFFF) into writers positioned at 0 or around 4 GiB.",
        note=TRUST + "Sources from the crate's writer and the independent builder incl. methods the crate cannot decode and data-descriptor entries.",
        tech="deterministic simulation: seeded two-disk programs with I/O schedules, extent equality via the independent parser"),
    "C15": dict(level="exploration", ref="DESIGN.md §4 C15",
        text="Entries encrypted by the crate and by an independent PKWARE cipher (CRC and Info-ZIP time conventions), with the check byte chosen to cover all 256 outcomes, read with the right password, none, and wrong passwords searched to collide / not collide with the check byte, under short-read schedules; crate-written entries are decrypted by the independent cipher and scanned for plaintext. Independently built entries also carry the compression-effort hint bits 1-2 that zip -9e / 7-Zip -mx set.",
        note=TRUST + "A wrong password that passes the 1-byte check is legal (R5).",
        tech="deterministic simulation: seeded password/content/check-byte search with an independent cipher as oracle, short-read schedules"),
    "C16": dict(level="fault_enumeration", ref="DESIGN.md §4 C16",
        text="AES entries from an independent encryptor ((AE-1|AE-2) x strength x inner method x boundary content lengths): right / no / wrong password on the intact image, and for small entries EVERY single-bit flip of salt, verifier, ciphertext and MAC (sampled for large ones), plus wrong declared CRC under AE-1 vs AE-2, all read under short-read schedules with drawn caller buffers: tampering of a non-empty entry must surface as an error no later than EOF. AES entries also carry ZIP64 escapes (record before or after the AES record) and the extra records real archivers write.",
        note=TRUST + "The independent AES composition is validated at start-up against the third-party fixture in /repo/tests/data.",
        tech="deterministic simulation: enumerated bit-flip faults on simulated storage + seeded short-read schedules"),
    "C17": dict(level="exploration", ref="DESIGN.md §4 C17",
        text="Programs with aligned and extra-data entries after arbitrary prefixes (and sinks positioned anywhere, incl. beyond 2^32 in C08 runs): the data offset in the image must be a multiple of the alignment, equal the reader's data_start and the values the calls returned; local / central extra data must land verbatim where requested; malformed, reserved and oversized extra data must be refused. Aligned / extra-data entries are preceded, one time in four, by a raw copy, an append round, a directory, a symlink or an encrypted entry.",
        note=TRUST + "Alignments are drawn from boundary values, powers of two and uniformly from 0..65535.",
        tech="deterministic simulation: seeded programs with alignment arithmetic checked on the image by the independent parser"),
    "C20": dict(level="exploration", ref="DESIGN.md §4 C20",
        text="Clones of one archive driven by per-handle scripts: (A) a seeded scheduler releases one script step at a time across handle threads (baton passing), (B) shuttle's seeded random/PCT schedulers interleave handle threads at every source I/O call and at the shared relaxed atomic; each handle's observation log must equal its solo run; in a third of the cases some handles' own readers fail (seeded I/O faults per clone) and every OTHER handle must be unaffected. (C) a compile-time probe asserts Send + Sync. Damage hits entry data or, one time in four, the local header; handles are clones or clones of clones.",
        note=TRUST + "Part B builds the crate through a shadow manifest with the guarded hook (private atomic alias -> shuttle's); parts A and C use the crate as shipped.",
        tech="deterministic simulation: seeded schedulers (own baton scheduler + shuttle random/PCT) over cloned-handle scripts"),
}

NOT_APPLICABLE = {
    "C06": "pure function from one string to a path: no I/O, state, schedule, fault or history for a simulator to control; the property's own quantifier is bounded enumeration (model checking / exhaustive testing), not simulation (DESIGN.md §6)",
    "C18": "pure arithmetic on 2^32 DOS date/time words; decided by exhaustive enumeration or proof, nothing depends on an interleaving, fault or history (DESIGN.md §6)",
    "C19": "pure bytes->string decoding through a flag and a 128-entry table; exhaustive over 256 byte values x 2 modes, no schedule/fault dimension (DESIGN.md §6)",
}

PENDING = "check not built yet in this commit (construction order in DESIGN.md §8); will be claimed once its scenario exists"

def main():
    props = [json.loads(l) for l in open(os.path.join(ROOT, "properties.jsonl"))]
    ids = [p["id"] for p in props]
    checks = []
    for pid in ids:
        if pid in CHECKS:
            c = CHECKS[pid]
            checks.append({
                "property_id": pid,
                "quick_cmd": f"bin/check {pid} --tier quick",
                "thorough_cmd": f"bin/check {pid} --tier thorough",
                "evidence_file": f"/verif/evidence/{pid}.json",
                "replay_cmd_template": f"bin/check {pid} --replay {{path}}",
                "engine": "zipsim",
                "level_claimed": {"category": c["level"], "text": c["text"], "design_ref": c["ref"]},
                "level_note": c["note"],
                "technique": c["tech"],
            })
    na = []
    for pid in ids:
        if pid in CHECKS:
            continue
        na.append({"property_id": pid, "reason": NOT_APPLICABLE.get(pid, PENDING)})
    hooks_commits = []
    hc = os.path.join(ROOT, "hooks_commits.txt")
    if os.path.exists(hc):
        hooks_commits = [l.strip() for l in open(hc) if l.strip()]
    m = {
        "version": 1,
        "setup_cmd": "bin/setup",
        "hooks": {
            "guard": "zip_rs_zip_verif",
            "enable": "RUSTFLAGS='--cfg zip_rs_zip_verif' through the shadow manifest /verif/sim-shuttle (C20-B only); every other check builds /repo as shipped, with no cfg",
            "baseline_off_cmd": "cd /repo && cargo test --workspace --no-fail-fast --offline",
            "source_commits": hooks_commits,
            "add_only": True,
        },
        "engines": [{"name": "zipsim", "path": "/verif/sim", "serves_properties": [c["property_id"] for c in checks],
                     "kind_free_text": "single-process deterministic simulator: seeded workload generator, simulated storage/stream layer (SimDisk/SimStream) owning every I/O decision and fault, reference model + independent ZIP implementation as oracles, worker-process isolation, shrinking, replay files"}],
        "checks": checks,
        "not_applicable": na,
        "notes": "All checks honour VERIF_SEED (default 20260929) and VERIF_TIER. Exit 0 = held on everything explored, 1 = VIOLATION line(s) with replay file, 2 = harness error. Known findings: /verif/known_findings.json.",
    }
    json.dump(m, open(os.path.join(ROOT, "MANIFEST.json"), "w"), indent=1)
    print(f"MANIFEST.json: {len(checks)} checks, {len(na)} not_applicable")

if __name__ == "__main__":
    main()
