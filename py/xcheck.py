#!/usr/bin/env python3
"""CPython zipfile as an independent judge and producer (batch mode, one process per batch).

judge   <dir>: for every <i>.zip with <i>.json (expectations written by the harness) check that CPython's
               zipfile accepts the archive (testzip), lists the same entries (name, size, CRC, method,
               date_time, mode, comment) and decrypts/decodes every entry to content with the expected
               CRC-32. Prints one JSON line per archive: {"i":..,"ok":bool,"why":str}.
produce <dir>: for every <i>.json (a recipe) write <i>.zip with zipfile. Prints one JSON line per archive.
The output is a pure function of the input files (no clock, no randomness).
"""
import sys, os, json, zipfile, zlib, io, struct, subprocess

def crc(b):
    return zlib.crc32(b) & 0xFFFFFFFF

def judge_one(path, exp):
    try:
        zf = zipfile.ZipFile(path)
    except Exception as e:
        return False, f"zipfile rejects the archive: {type(e).__name__}: {e}"
    try:
        infos = zf.infolist()
        if len(infos) != len(exp["entries"]):
            return False, f"{len(infos)} entries, expected {len(exp['entries'])}"
        if zf.comment != bytes.fromhex(exp["comment"]):
            return False, "archive comment differs"
        for k, (zi, e) in enumerate(zip(infos, exp["entries"])):
            if zi.filename != e["name"]:
                return False, f"entry {k}: name {zi.filename!r} != {e['name']!r}"
            if zi.compress_type != e["method"]:
                return False, f"entry {k}: method {zi.compress_type} != {e['method']}"
            if tuple(zi.date_time) != tuple(e["date_time"]):
                return False, f"entry {k}: date_time {zi.date_time} != {e['date_time']}"
            if zi.file_size != e["size"]:
                return False, f"entry {k}: file_size {zi.file_size} != {e['size']}"
            if zi.CRC != e["crc"]:
                return False, f"entry {k}: CRC {zi.CRC:#x} != {e['crc']:#x}"
            if e.get("mode") is not None and (zi.external_attr >> 16) != e["mode"]:
                return False, f"entry {k}: mode {zi.external_attr >> 16:o} != {e['mode']:o}"
            if bool(zi.flag_bits & 1) != (e.get("password") is not None):
                return False, f"entry {k}: encryption flag {zi.flag_bits & 1} vs password expected {e.get('password') is not None}"
            pwd = bytes.fromhex(e["password"]) if e.get("password") is not None else None
            try:
                data = zf.read(zi, pwd=pwd)
            except Exception as ex:
                return False, f"entry {k}: read failed: {type(ex).__name__}: {ex}"
            if len(data) != e["size"] or crc(data) != e["content_crc"]:
                return False, f"entry {k}: content differs ({len(data)} bytes, crc {crc(data):#x} vs {e['content_crc']:#x})"
        if not any(e.get("password") is not None for e in exp["entries"]):
            bad = zf.testzip()
            if bad is not None:
                return False, f"testzip reports {bad!r}"
    except Exception as ex:
        return False, f"exception while checking: {type(ex).__name__}: {ex}"
    finally:
        zf.close()
    if exp.get("unzip"):
        r = subprocess.run(["unzip", "-tqq", path], capture_output=True, text=True)
        if r.returncode not in (0, 1):  # 1 = warnings only
            return False, f"unzip -t exit {r.returncode}: {(r.stdout + r.stderr)[:200]}"
    return True, ""

class Unseekable(io.RawIOBase):
    """write-only, non-seekable: makes zipfile emit data descriptors"""
    def __init__(self, f):
        self.f = f
    def writable(self):
        return True
    def write(self, b):
        return self.f.write(b)
    def seekable(self):
        return False
    def flush(self):
        self.f.flush()

def produce_one(path, rec):
    raw = open(path, "wb")
    if rec.get("prefix"):
        raw.write(bytes.fromhex(rec["prefix"]))
    out = Unseekable(raw) if rec.get("unseekable") else raw
    # a prefix makes zipfile record offsets relative to the file start (absolute): fine for readers
    zf = zipfile.ZipFile(out, "w", allowZip64=True)
    zf.comment = bytes.fromhex(rec.get("comment", ""))
    for e in rec["entries"]:
        zi = zipfile.ZipInfo(e["name"], date_time=tuple(e["date_time"]))
        zi.compress_type = e["method"]
        zi.external_attr = e.get("external_attr", 0o100644 << 16)
        zi.create_system = e.get("system", 3)
        zi.comment = bytes.fromhex(e.get("comment", ""))
        if e.get("extra"):
            zi.extra = bytes.fromhex(e["extra"])
        data = bytes.fromhex(e["content"])
        level = e.get("level")
        if e.get("force_zip64"):
            with zf.open(zi, "w", force_zip64=True) as w:
                w.write(data)
        else:
            zf.writestr(zi, data, compresslevel=level)
    zf.close()
    raw.close()
    return True, ""

def main():
    mode, d = sys.argv[1], sys.argv[2]
    ids = sorted(int(f[:-5]) for f in os.listdir(d) if f.endswith(".json"))
    for i in ids:
        spec = json.load(open(os.path.join(d, f"{i}.json")))
        z = os.path.join(d, f"{i}.zip")
        try:
            ok, why = (judge_one if mode == "judge" else produce_one)(z, spec)
        except Exception as ex:
            ok, why = False, f"{type(ex).__name__}: {ex}"
        print(json.dumps({"i": i, "ok": ok, "why": why}), flush=True)

if __name__ == "__main__":
    main()
