fn assert_send_sync<T: Send + Sync>() {}
fn main() {
    assert_send_sync::<zip::ZipArchive<std::io::Cursor<Vec<u8>>>>();
    assert_send_sync::<zip::ZipArchive<std::fs::File>>();
    println!("ZipArchive<R> is Send + Sync for Send + Sync readers");
}
