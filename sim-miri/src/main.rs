//! C20 part D: clones of one `ZipArchive` on real `std` threads, executed by Miri. Miri owns the thread
//! schedule (seeded, `-Zmiri-seed` / `-Zmiri-many-seeds`, preemption at basic-block granularity) and reports
//! data races and undefined behaviour on the shared state (`Arc<Shared>`, the `data_start` atomics) that
//! no std-thread run and no shuttle run (which sees only its own sync types) can show.
//! The oracle is the one of parts A and B: every handle's observation log equals the log of the same
//! script run alone on a fresh archive.
//!
//! usage: zipsim-miri <workload-seed> [threads]
//! exit 0 = logs equal; exit 1 = a handle observed something else (line "MIRI-MISMATCH ..."); Miri itself
//! exits non-zero with its diagnostic on a data race / UB / deadlock.

use std::io::{Cursor, Read, Write};
use zip::write::FileOptions;
use zip::{CompressionMethod, ZipArchive, ZipWriter};

struct Rng(u64);
impl Rng {
    fn next(&mut self) -> u64 {
        // splitmix64
        self.0 = self.0.wrapping_add(0x9E37_79B9_7F4A_7C15);
        let mut z = self.0;
        z = (z ^ (z >> 30)).wrapping_mul(0xBF58_476D_1CE4_E5B9);
        z = (z ^ (z >> 27)).wrapping_mul(0x94D0_49BB_1331_11EB);
        z ^ (z >> 31)
    }
    fn below(&mut self, n: u64) -> u64 {
        self.next() % n.max(1)
    }
}

#[derive(Clone, Debug)]
enum Step {
    Open(usize),
    OpenRaw(usize),
    OpenByName(usize),
    Read(usize),
    ReadToEnd,
    Accessors,
    Close,
    Info,
}

fn crc(b: &[u8]) -> u32 {
    // small bitwise CRC-32 (no table: cheaper to interpret than to initialise)
    let mut c = !0u32;
    for x in b {
        c ^= *x as u32;
        for _ in 0..8 {
            c = if c & 1 != 0 { (c >> 1) ^ 0xEDB8_8320 } else { c >> 1 };
        }
    }
    !c
}

fn build(r: &mut Rng, junk: usize) -> (Vec<u8>, Vec<String>) {
    let mut cur = Cursor::new(vec![0x5au8; junk]);
    cur.set_position(junk as u64);
    let mut w = ZipWriter::new(cur);
    let n = 2 + r.below(3) as usize;
    let mut names = vec![];
    for i in 0..n {
        let m = if r.below(2) == 0 { CompressionMethod::Stored } else { CompressionMethod::Deflated };
        let name = format!("e{i}{}", if r.below(3) == 0 { "-é" } else { "" });
        let o = FileOptions::default().compression_method(m).last_modified_time(zip::DateTime::from_msdos(0x21 + i as u16, 0x800)).unix_permissions(0o600 + i as u32);
        w.start_file(name.clone(), o).unwrap();
        let len = [0usize, 1, 17, 90, 300][r.below(5) as usize];
        let data: Vec<u8> = (0..len).map(|k| (k as u8).wrapping_mul(31) ^ (i as u8)).collect();
        w.write_all(&data).unwrap();
        names.push(name);
    }
    w.set_comment("miri");
    let mut out = w.finish().unwrap().into_inner();
    (out, names)
}

fn gen_script(r: &mut Rng, n: usize, hot: usize) -> Vec<Step> {
    let mut s = vec![];
    // every handle starts on the same entry: the first-ever open of an entry is where shared state is written
    s.push(Step::Open(hot));
    for _ in 0..(1 + r.below(3)) {
        for _ in 0..r.below(3) {
            s.push(match r.below(5) {
                0 => Step::Accessors,
                1 => Step::ReadToEnd,
                2 => Step::Read(0),
                _ => Step::Read([1usize, 7, 64][r.below(3) as usize]),
            });
        }
        if r.below(2) == 0 {
            s.push(Step::Close);
        }
        if r.below(5) == 0 {
            s.push(Step::Info);
        }
        let k = r.below(n as u64 + 1) as usize;
        s.push(match r.below(4) {
            0 => Step::OpenRaw(k),
            1 => Step::OpenByName(k),
            _ => Step::Open(k),
        });
    }
    s.push(Step::ReadToEnd);
    s
}

fn run_script(ar: &mut ZipArchive<Cursor<Vec<u8>>>, script: &[Step], names: &[String]) -> Vec<String> {
    let mut log = vec![];
    let mut i = 0;
    while i < script.len() {
        let step = script[i].clone();
        i += 1;
        let opened = match &step {
            Step::Open(k) => ar.by_index(*k).map_err(|e| e.to_string()),
            Step::OpenRaw(k) => ar.by_index_raw(*k).map_err(|e| e.to_string()),
            Step::OpenByName(k) => ar.by_name(names.get(*k).map(|s| s.as_str()).unwrap_or("absent")).map_err(|e| e.to_string()),
            Step::Info => {
                let mut n: Vec<String> = ar.file_names().map(|s| s.to_string()).collect();
                n.sort();
                log.push(format!("info len={} offset={} comment={:?} names={:?}", ar.len(), ar.offset(), ar.comment(), n));
                continue;
            }
            other => {
                log.push(format!("{other:?} without an open entry"));
                continue;
            }
        };
        let mut f = match opened {
            Err(e) => {
                log.push(format!("{step:?} -> Err({e})"));
                continue;
            }
            Ok(f) => f,
        };
        log.push(format!("{step:?} -> name={:?} size={} csize={} crc={:#x} data_start={} header_start={}", f.name(), f.size(), f.compressed_size(), f.crc32(), f.data_start(), f.header_start()));
        while i < script.len() {
            match &script[i] {
                Step::Read(n) => {
                    i += 1;
                    let mut b = vec![0u8; *n];
                    let mut got = 0;
                    let mut err = None;
                    if *n == 0 {
                        if let Err(e) = f.read(&mut b) {
                            err = Some(e.to_string());
                        }
                    }
                    while got < b.len() {
                        match f.read(&mut b[got..]) {
                            Ok(0) => break,
                            Ok(k) => got += k,
                            Err(e) => {
                                err = Some(e.to_string());
                                break;
                            }
                        }
                    }
                    log.push(format!("read({n}) -> {got} crc={:#x} err={err:?}", crc(&b[..got])));
                }
                Step::ReadToEnd => {
                    i += 1;
                    let mut v = vec![];
                    let e = f.read_to_end(&mut v).err().map(|e| e.to_string());
                    log.push(format!("read_to_end -> {} crc={:#x} err={e:?}", v.len(), crc(&v)));
                }
                Step::Accessors => {
                    i += 1;
                    let lm = f.last_modified();
                    log.push(format!("acc mode={:?} dos={:#x},{:#x} central={} data_start={} dir={}", f.unix_mode(), lm.datepart(), lm.timepart(), f.central_header_start(), f.data_start(), f.is_dir()));
                }
                Step::Close => {
                    i += 1;
                    break;
                }
                _ => break,
            }
        }
        drop(f);
    }
    log
}

fn main() {
    let args: Vec<String> = std::env::args().collect();
    let seed: u64 = args.get(1).and_then(|s| s.parse().ok()).unwrap_or(1);
    let threads: usize = args.get(2).and_then(|s| s.parse().ok()).unwrap_or(3);
    let mut r = Rng(seed ^ 0xC20D);
    let junk = [0usize, 0, 13][r.below(3) as usize];
    let (image, names) = build(&mut r, junk);
    let n = names.len();
    let hot = r.below(n as u64) as usize;
    let scripts: Vec<Vec<Step>> = (0..threads).map(|_| gen_script(&mut r, n, hot)).collect();
    // alone: each script on a fresh archive
    let solo: Vec<Vec<String>> = scripts.iter().map(|s| run_script(&mut ZipArchive::new(Cursor::new(image.clone())).unwrap(), s, &names)).collect();
    // together: clones of ONE archive, one OS thread each, released together
    let base = ZipArchive::new(Cursor::new(image.clone())).unwrap();
    let barrier = std::sync::Arc::new(std::sync::Barrier::new(threads));
    let mut joins = vec![];
    for s in scripts.iter().cloned() {
        let mut ar = base.clone();
        let names = names.clone();
        let b = barrier.clone();
        joins.push(std::thread::spawn(move || {
            b.wait();
            run_script(&mut ar, &s, &names)
        }));
    }
    drop(base);
    let logs: Vec<Vec<String>> = joins.into_iter().map(|j| j.join().expect("a handle thread panicked")).collect();
    for (k, (a, s)) in logs.iter().zip(solo.iter()).enumerate() {
        if a != s {
            let at = a.iter().zip(s.iter()).position(|(x, y)| x != y).unwrap_or(a.len().min(s.len()));
            println!("MIRI-MISMATCH workload-seed={seed} handle={k} line={at}: concurrent {:?} vs alone {:?}", a.get(at), s.get(at));
            std::process::exit(1);
        }
    }
    println!("MIRI-OK workload-seed={seed} threads={threads} entries={n} junk={junk} steps={}", scripts.iter().map(|s| s.len()).sum::<usize>());
}
