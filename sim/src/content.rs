//! Content descriptors (so that replay files stay small and shrink by shrinking numbers),
//! a hex newtype for JSON, and the harness's own CRC-32 (independent of crc32fast).

use crate::rng::Rng;
use serde::{Deserialize, Deserializer, Serialize, Serializer};

#[derive(Clone, Debug, PartialEq, Eq, Default)]
pub struct Hex(pub Vec<u8>);

impl Serialize for Hex {
    fn serialize<S: Serializer>(&self, s: S) -> Result<S::Ok, S::Error> {
        let mut out = String::with_capacity(self.0.len() * 2);
        for b in &self.0 {
            out.push_str(&format!("{b:02x}"));
        }
        s.serialize_str(&out)
    }
}
impl<'de> Deserialize<'de> for Hex {
    fn deserialize<D: Deserializer<'de>>(d: D) -> Result<Hex, D::Error> {
        let s = String::deserialize(d)?;
        let b = s.as_bytes();
        if b.len() % 2 != 0 {
            return Err(serde::de::Error::custom("odd hex length"));
        }
        let mut v = Vec::with_capacity(b.len() / 2);
        for i in (0..b.len()).step_by(2) {
            let h = u8::from_str_radix(&s[i..i + 2], 16).map_err(serde::de::Error::custom)?;
            v.push(h);
        }
        Ok(Hex(v))
    }
}

#[derive(Clone, Debug, Serialize, Deserialize, PartialEq)]
pub enum Content {
    Lit(Hex),
    /// incompressible
    Rand { len: u64, seed: u64 },
    /// highly compressible
    Run { byte: u8, len: u64 },
    /// text-like (compressible, non trivial)
    Text { len: u64, seed: u64 },
    /// huge: zeros with 8 marker bytes at every 64 MiB boundary and at the very end; never materialised
    Sparse { len: u64, seed: u64 },
    /// a small, complete ZIP archive (payloads that themselves contain ZIP records: nested archives,
    /// self-extractors): every record signature occurs inside entry data
    Nested { seed: u64 },
}

const WORDS: &[&str] = &["lorem", "ipsum", "zip", "archive", "PK", "\n", " ", "entry", "0123456789", "the", "central", "directory", "\t", "é", "日本"];

impl Content {
    pub fn len(&self) -> u64 {
        match self {
            Content::Lit(h) => h.0.len() as u64,
            Content::Rand { len, .. } | Content::Run { len, .. } | Content::Text { len, .. } | Content::Sparse { len, .. } => *len,
            Content::Nested { .. } => self.bytes().len() as u64,
        }
    }
    pub fn is_sparse(&self) -> bool {
        matches!(self, Content::Sparse { .. })
    }
    pub fn bytes(&self) -> Vec<u8> {
        match self {
            Content::Lit(h) => h.0.clone(),
            Content::Rand { len, seed } => Rng::new(*seed ^ 0xC0FFEE).bytes(*len as usize),
            Content::Run { byte, len } => vec![*byte; *len as usize],
            Content::Text { len, seed } => {
                let mut r = Rng::new(*seed ^ 0x7E47);
                let mut v = Vec::with_capacity(*len as usize + 16);
                while (v.len() as u64) < *len {
                    v.extend_from_slice(r.pick(WORDS).as_bytes());
                }
                v.truncate(*len as usize);
                v
            }
            Content::Sparse { len, .. } => {
                let mut v = vec![0u8; *len as usize];
                self.fill(0, &mut v);
                v
            }
            Content::Nested { seed } => nested_zip(*seed),
        }
    }
    /// bytes [off, off+buf.len()) of the content (used for Sparse streaming)
    pub fn fill(&self, off: u64, buf: &mut [u8]) {
        match self {
            Content::Sparse { len, seed } => {
                buf.iter_mut().for_each(|b| *b = 0);
                const STEP: u64 = 1 << 26;
                let end = off + buf.len() as u64;
                let mut m = off / STEP * STEP;
                while m < end {
                    for i in 0..8u64 {
                        let p = m + i;
                        if p >= off && p < end && p < *len {
                            buf[(p - off) as usize] = (crate::rng::mix(*seed, p) & 0xff) as u8 | 1;
                        }
                    }
                    m += STEP;
                }
                // tail markers
                for i in 0..8u64 {
                    if *len > i {
                        let p = *len - 1 - i;
                        if p >= off && p < end {
                            buf[(p - off) as usize] = (crate::rng::mix(*seed ^ 0xEE, p) & 0xff) as u8 | 1;
                        }
                    }
                }
            }
            other => {
                let b = other.bytes();
                let n = buf.len();
                buf.copy_from_slice(&b[off as usize..off as usize + n]);
            }
        }
    }
    pub fn gen(r: &mut Rng, max: u64) -> Content {
        if max >= 200 && r.chance(1, 14) {
            return Content::Nested { seed: r.below(64) };
        }
        match r.below(8) {
            0 => Content::Lit(Hex(vec![])),
            1 | 2 => {
                let n = r.range(0, 12.min(max)) as usize;
                Content::Lit(Hex(r.bytes(n)))
            }
            3 | 4 => Content::Rand { len: r.size(max), seed: r.below(1 << 20) },
            5 => Content::Run { byte: r.pickc(&[0u8, b'a', 0xff, 0x50]), len: r.size(max) },
            _ => Content::Text { len: r.size(max), seed: r.below(1 << 20) },
        }
    }
    /// candidates for shrinking: shorter contents
    pub fn shrinks(&self) -> Vec<Content> {
        let mut out = vec![];
        let n = self.len();
        if n == 0 {
            return out;
        }
        match self {
            Content::Lit(h) => {
                out.push(Content::Lit(Hex(vec![])));
                if n > 1 {
                    out.push(Content::Lit(Hex(h.0[..h.0.len() / 2].to_vec())));
                    out.push(Content::Lit(Hex(h.0[..h.0.len() - 1].to_vec())));
                }
                if h.0.iter().any(|b| *b != b'a') {
                    out.push(Content::Lit(Hex(vec![b'a'; h.0.len()])));
                }
            }
            Content::Rand { len, seed } => {
                out.push(Content::Lit(Hex(vec![])));
                out.push(Content::Rand { len: len / 2, seed: *seed });
                out.push(Content::Rand { len: len - 1, seed: *seed });
                if *len <= 64 {
                    out.push(Content::Lit(Hex(self.bytes())));
                }
                out.push(Content::Run { byte: b'a', len: *len });
            }
            Content::Run { byte, len } => {
                out.push(Content::Lit(Hex(vec![])));
                out.push(Content::Run { byte: *byte, len: len / 2 });
                out.push(Content::Run { byte: *byte, len: len - 1 });
                if *len <= 64 {
                    out.push(Content::Lit(Hex(self.bytes())));
                }
            }
            Content::Text { len, seed } => {
                out.push(Content::Lit(Hex(vec![])));
                out.push(Content::Text { len: len / 2, seed: *seed });
                out.push(Content::Text { len: len - 1, seed: *seed });
                out.push(Content::Run { byte: b'a', len: *len });
            }
            Content::Sparse { .. } => {}
            Content::Nested { .. } => {
                out.push(Content::Lit(Hex(vec![])));
                out.push(Content::Rand { len: n, seed: 1 });
            }
        }
        out
    }
}

// ---- own CRC-32 (IEEE), slice-by-8, built at first use -------------------------------------

fn tables() -> &'static [[u32; 256]; 8] {
    static T: std::sync::OnceLock<Box<[[u32; 256]; 8]>> = std::sync::OnceLock::new();
    T.get_or_init(|| {
        let mut t = Box::new([[0u32; 256]; 8]);
        for i in 0..256u32 {
            let mut c = i;
            for _ in 0..8 {
                c = if c & 1 != 0 { 0xEDB88320 ^ (c >> 1) } else { c >> 1 };
            }
            t[0][i as usize] = c;
        }
        for i in 0..256usize {
            let mut c = t[0][i];
            for k in 1..8 {
                c = t[0][(c & 0xff) as usize] ^ (c >> 8);
                t[k][i] = c;
            }
        }
        t
    })
}

#[derive(Clone)]
pub struct Crc(pub u32);
impl Crc {
    pub fn new() -> Crc {
        Crc(0xFFFF_FFFF)
    }
    pub fn update(&mut self, mut data: &[u8]) {
        let t = tables();
        let mut c = self.0;
        while data.len() >= 8 {
            let lo = u32::from_le_bytes([data[0], data[1], data[2], data[3]]) ^ c;
            let hi = u32::from_le_bytes([data[4], data[5], data[6], data[7]]);
            c = t[7][(lo & 0xff) as usize]
                ^ t[6][((lo >> 8) & 0xff) as usize]
                ^ t[5][((lo >> 16) & 0xff) as usize]
                ^ t[4][(lo >> 24) as usize]
                ^ t[3][(hi & 0xff) as usize]
                ^ t[2][((hi >> 8) & 0xff) as usize]
                ^ t[1][((hi >> 16) & 0xff) as usize]
                ^ t[0][(hi >> 24) as usize];
            data = &data[8..];
        }
        for b in data {
            c = t[0][((c ^ *b as u32) & 0xff) as usize] ^ (c >> 8);
        }
        self.0 = c;
    }
    pub fn finish(&self) -> u32 {
        !self.0
    }
}
pub fn crc32(data: &[u8]) -> u32 {
    let mut c = Crc::new();
    c.update(data);
    c.finish()
}
/// one step of the raw (non-inverted) CRC register, as used by the PKWARE cipher
pub fn crc_step(crc: u32, b: u8) -> u32 {
    tables()[0][((crc ^ b as u32) & 0xff) as usize] ^ (crc >> 8)
}

pub fn content_crc(c: &Content) -> u32 {
    if let Content::Sparse { len, .. } = c {
        let mut crc = Crc::new();
        let mut off = 0u64;
        let mut buf = vec![0u8; 1 << 20];
        while off < *len {
            let n = ((*len - off).min(buf.len() as u64)) as usize;
            c.fill(off, &mut buf[..n]);
            crc.update(&buf[..n]);
            off += n as u64;
        }
        crc.finish()
    } else {
        crc32(&c.bytes())
    }
}

/// a small complete archive built by the independent builder (deterministic in `seed`)
pub fn nested_zip(seed: u64) -> Vec<u8> {
    use crate::indep::build::{build, BEntry, Layout};
    let mut r = Rng::new(seed ^ 0x2E57ED);
    let mut l = Layout::default();
    for (i, name) in ["readme.txt", "data.bin", "more/x"].iter().enumerate().take(1 + (seed % 3) as usize) {
        let len = r.range(0, 40);
        l.entries.push(BEntry { name: Hex(name.as_bytes().to_vec()), method: if (seed >> i) & 1 == 0 { 0 } else { 8 }, content: Content::Rand { len, seed: seed + i as u64 }, ..Default::default() });
    }
    if seed % 5 == 0 {
        l.comment = Hex(b"inner".to_vec());
    }
    build(&l).image
}
