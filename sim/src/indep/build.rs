//! Independent reference builder: emits archives in the layouts C03 lists, driven by a layout
//! descriptor; returns the image and its own record of what it wrote (the oracle).

use super::crypto;
use super::*;
use crate::content::{crc32, Content, Hex};
use crate::rng::Rng;
use serde::{Deserialize, Serialize};

#[derive(Serialize, Deserialize, Clone, Debug, PartialEq)]
pub enum Enc {
    /// infozip: bit 3 + data descriptor, check byte = high byte of the DOS time
    ZipCrypto { pw: Hex, infozip: bool },
    /// version 1 = AE-1, 2 = AE-2; strength 1..=3
    Aes { pw: Hex, strength: u8, version: u8, salt_seed: u64 },
}

#[derive(Serialize, Deserialize, Clone, Debug, PartialEq)]
pub struct BEntry {
    pub name: Hex,
    pub utf8: bool,
    pub method: u16,
    pub level: i32,
    /// Some(block size): deflate emitted as stored blocks by the hand-rolled emitter
    pub stored_blocks: Option<u32>,
    pub content: Content,
    pub dos: (u16, u16),
    pub sys: u8,
    pub ver: u8,
    pub eattr: u32,
    pub iattr: u16,
    /// 0 none; 1 sig+32; 2 nosig+32; 3 sig+64; 4 nosig+64
    pub dd: u8,
    /// force a ZIP64 record in the local header (sizes there become 0xFFFFFFFF)
    pub z64_local: bool,
    /// force fields into the central ZIP64 record: bit0 usize, bit1 csize, bit2 offset, bit3 also a disk number
    pub z64_central: u8,
    pub extra_local: Hex,
    pub extra_central: Hex,
    /// ZIP64 record placed before (true) or after (false) the other records
    pub z64_first: bool,
    pub comment: Hex,
    pub enc: Option<Enc>,
    pub gap_before: u32,
    /// central CRC recorded (None = true CRC); AE-2 records 0
    pub crc_lie: Option<u32>,
    /// name recorded in the central header when it differs from the local one
    #[serde(default)]
    pub central_name: Option<Hex>,
    /// bytes appended after the end of the compressed stream (inside the encrypted payload, if any):
    /// decoders stop at their end-of-stream marker, the declared compressed size covers the padding
    #[serde(default)]
    pub trailing_pad: u32,
    /// general-purpose bits that carry no meaning for a reader: the compression-effort hint (bits 1-2: Info-ZIP
    /// -1/-9, 7-Zip -mx) - set in both headers
    #[serde(default)]
    pub gp_hint: u16,
}

impl Default for BEntry {
    fn default() -> BEntry {
        BEntry {
            name: Hex(b"a".to_vec()),
            utf8: false,
            method: 0,
            level: 6,
            stored_blocks: None,
            content: Content::Lit(Hex(vec![])),
            dos: (0x21, 0),
            sys: 3,
            ver: 20,
            eattr: 0o100644 << 16,
            iattr: 0,
            dd: 0,
            z64_local: false,
            z64_central: 0,
            extra_local: Hex(vec![]),
            extra_central: Hex(vec![]),
            z64_first: true,
            comment: Hex(vec![]),
            enc: None,
            gap_before: 0,
            crc_lie: None,
            central_name: None,
            trailing_pad: 0,
            gp_hint: 0,
        }
    }
}

#[derive(Serialize, Deserialize, Clone, Debug, PartialEq, Default)]
pub struct Layout {
    pub entries: Vec<BEntry>,
    pub comment: Hex,
    pub prefix: u32,
    pub prefix_seed: u64,
    pub trailing: u32,
    pub force_z64_end: bool,
    /// with a forced ZIP64 end record: which fields of the 32-bit end record keep their REAL values instead of
    /// the 0xFFFF / 0xFFFFFFFF sentinels (bit 0 entry counts, bit 1 directory size, bit 2 directory offset) -
    /// producers in always-ZIP64 mode write real values whenever they fit (APPNOTE 4.4.1.4 allows both)
    #[serde(default)]
    pub z64_end_real: u8,
    /// central directory order as a rotation amount (0 = same as local order) and reversal
    pub central_rot: u32,
    pub central_rev: bool,
    pub gap_before_cd: u32,
    /// a hole of this many (zero) bytes between the prepended data and the first local header that BELONGS to
    /// the archive: every recorded offset counts it, so with a hole of 4 GiB all offsets travel in ZIP64
    /// records. `Built::image` does not contain the hole (flat positions); `Built::store()` materialises it
    /// on a sparse disk and `Built::abs()` maps a flat position to the position there.
    #[serde(default)]
    pub hole: u64,
}

#[derive(Clone, Debug, Default)]
pub struct BInfo {
    pub header_start: u64,
    pub data_start: u64,
    pub csize: u64,
    pub usize: u64,
    pub crc: u32,
    pub crc_recorded: u32,
    pub central_start: u64,
    pub raw: Vec<u8>,
    pub plain: Vec<u8>,
    pub central_extra: Vec<u8>,
    pub local_extra: Vec<u8>,
    pub real_method: u16,
    pub recorded_method: u16,
}

#[derive(Clone, Debug, Default)]
pub struct Built {
    pub image: Vec<u8>,
    /// in central-directory order
    pub infos: Vec<BInfo>,
    /// index into layout.entries for each central position
    pub order: Vec<usize>,
    pub eocd_pos: u64,
    pub cd_start: u64,
    pub zip64_end: bool,
    pub hole_at: u64,
    pub hole: u64,
}

impl Built {
    /// position on the (sparse) disk of a position in the flat image
    pub fn abs(&self, flat: u64) -> u64 {
        if self.hole > 0 && flat >= self.hole_at {
            flat + self.hole
        } else {
            flat
        }
    }
    /// the archive on a sparse simulated disk, hole included
    pub fn store(&self) -> crate::simio::Shared {
        if self.hole == 0 {
            return crate::simio::shared_from(&self.image);
        }
        let st = crate::simio::shared_empty();
        {
            let mut g = st.lock().unwrap_or_else(|e| e.into_inner());
            let at = self.hole_at as usize;
            g.write_at(0, &self.image[..at]);
            g.write_at(self.hole_at + self.hole, &self.image[at..]);
        }
        st
    }
}

fn junk(seed: u64, n: usize) -> Vec<u8> {
    // junk must not contain 'P' 'K' pairs, so that it can never spell a record signature
    let mut v = Rng::new(seed ^ 0x1234).bytes(n);
    for b in v.iter_mut() {
        if *b == b'P' {
            *b = b'Q';
        }
    }
    v
}

pub fn build(l: &Layout) -> Built {
    let mut img: Vec<u8> = junk(l.prefix_seed, l.prefix as usize);
    let base = img.len() as u64;
    let hole = l.hole;
    let mut infos: Vec<BInfo> = vec![];
    for (ei, e) in l.entries.iter().enumerate() {
        img.extend_from_slice(&junk(ei as u64 + 77, e.gap_before as usize));
        let plain = e.content.bytes();
        let crc = crc32(&plain);
        let compressed = match (e.method, e.stored_blocks) {
            (8, Some(b)) => deflate_stored_blocks(&plain, b as usize),
            (m, _) => encode(m, e.level, &plain),
        };
        let mut compressed = compressed;
        if e.trailing_pad > 0 && matches!(e.method, 8 | 12) {
            compressed.extend_from_slice(&junk(ei as u64 + 4040, e.trailing_pad as usize));
        }
        let mut recorded_method = e.method;
        let mut flags: u16 = (if e.utf8 { 0x800 } else { 0 }) | (e.gp_hint & 0x6);
        let mut aes_extra: Vec<u8> = vec![];
        let mut crc_rec = e.crc_lie.unwrap_or(crc);
        let mut dd = e.dd;
        let raw: Vec<u8> = match &e.enc {
            None => compressed,
            Some(Enc::ZipCrypto { pw, infozip }) => {
                flags |= 1;
                // with a data descriptor the CRC is not known when the header is written: the check byte
                // is then the high byte of the DOS time (Info-ZIP convention)
                let check = if *infozip || dd != 0 {
                    if dd == 0 {
                        dd = 1;
                    }
                    (e.dos.1 >> 8) as u8
                } else {
                    (crc_rec >> 24) as u8
                };
                let hb = Rng::new(ei as u64 ^ 0xABCD).bytes(11);
                let mut h11 = [0u8; 11];
                h11.copy_from_slice(&hb);
                crypto::zipcrypto_encrypt(&pw.0, &h11, check, &compressed)
            }
            Some(Enc::Aes { pw, strength, version, salt_seed }) => {
                flags |= 1;
                recorded_method = 99;
                aes_extra.extend_from_slice(&0x9901u16.to_le_bytes());
                aes_extra.extend_from_slice(&7u16.to_le_bytes());
                aes_extra.extend_from_slice(&(*version as u16).to_le_bytes());
                aes_extra.extend_from_slice(b"AE");
                aes_extra.push(*strength);
                aes_extra.extend_from_slice(&e.method.to_le_bytes());
                if *version == 2 && e.crc_lie.is_none() {
                    crc_rec = 0;
                }
                let salt = Rng::new(*salt_seed).bytes(crypto::aes_salt_len(*strength));
                crypto::winzip_encrypt(&pw.0, *strength, &salt, &compressed)
            }
        };
        if dd != 0 {
            flags |= 8;
        }
        let csize = raw.len() as u64;
        let usz = plain.len() as u64;
        let header_start = img.len() as u64;
        let rel_off = header_start - base + hole;
        // a value that does not fit its 32-bit field has to travel in the ZIP64 record
        let z64_central = e.z64_central | if rel_off >= 0xFFFF_FFFF { 4 } else { 0 };
        // local extra
        let dd64 = dd == 3 || dd == 4;
        let z64_local = e.z64_local || dd64;
        let mut lex: Vec<u8> = vec![];
        let z64l: Vec<u8> = if z64_local {
            let mut r = vec![];
            r.extend_from_slice(&1u16.to_le_bytes());
            r.extend_from_slice(&16u16.to_le_bytes());
            if dd != 0 {
                r.extend_from_slice(&0u64.to_le_bytes());
                r.extend_from_slice(&0u64.to_le_bytes());
            } else {
                r.extend_from_slice(&usz.to_le_bytes());
                r.extend_from_slice(&csize.to_le_bytes());
            }
            r
        } else {
            vec![]
        };
        if e.z64_first {
            lex.extend_from_slice(&z64l);
        }
        // the 16-bit length field bounds the whole local extra field: an over-long user part is dropped
        let user_local: &[u8] = if e.extra_local.0.len() + z64l.len() + aes_extra.len() > 65535 { &[] } else { &e.extra_local.0 };
        lex.extend_from_slice(user_local);
        lex.extend_from_slice(&aes_extra);
        if !e.z64_first {
            lex.extend_from_slice(&z64l);
        }
        // local header
        img.extend_from_slice(&SIG_LOCAL.to_le_bytes());
        img.extend_from_slice(&(if z64_local { 45u16 } else { e.ver as u16 }).to_le_bytes());
        img.extend_from_slice(&flags.to_le_bytes());
        img.extend_from_slice(&recorded_method.to_le_bytes());
        img.extend_from_slice(&e.dos.1.to_le_bytes());
        img.extend_from_slice(&e.dos.0.to_le_bytes());
        if dd != 0 {
            img.extend_from_slice(&0u32.to_le_bytes());
            let s = if z64_local { 0xFFFF_FFFFu32 } else { 0 };
            img.extend_from_slice(&s.to_le_bytes());
            img.extend_from_slice(&s.to_le_bytes());
        } else {
            img.extend_from_slice(&crc_rec.to_le_bytes());
            if z64_local {
                img.extend_from_slice(&0xFFFF_FFFFu32.to_le_bytes());
                img.extend_from_slice(&0xFFFF_FFFFu32.to_le_bytes());
            } else {
                img.extend_from_slice(&(csize as u32).to_le_bytes());
                img.extend_from_slice(&(usz as u32).to_le_bytes());
            }
        }
        img.extend_from_slice(&(e.name.0.len() as u16).to_le_bytes());
        img.extend_from_slice(&(lex.len() as u16).to_le_bytes());
        img.extend_from_slice(&e.name.0);
        img.extend_from_slice(&lex);
        let data_start = img.len() as u64;
        img.extend_from_slice(&raw);
        match dd {
            1 | 3 => {
                img.extend_from_slice(&SIG_DD.to_le_bytes());
            }
            _ => {}
        }
        if dd != 0 {
            img.extend_from_slice(&crc_rec.to_le_bytes());
            if dd64 {
                img.extend_from_slice(&csize.to_le_bytes());
                img.extend_from_slice(&usz.to_le_bytes());
            } else {
                img.extend_from_slice(&(csize as u32).to_le_bytes());
                img.extend_from_slice(&(usz as u32).to_le_bytes());
            }
        }
        // central extra
        let mut zc: Vec<u8> = vec![];
        if z64_central & 0x0f != 0 {
            let mut body = vec![];
            if z64_central & 1 != 0 {
                body.extend_from_slice(&usz.to_le_bytes());
            }
            if z64_central & 2 != 0 {
                body.extend_from_slice(&csize.to_le_bytes());
            }
            if z64_central & 4 != 0 {
                body.extend_from_slice(&rel_off.to_le_bytes());
            }
            if z64_central & 8 != 0 {
                body.extend_from_slice(&0u32.to_le_bytes());
            }
            zc.extend_from_slice(&1u16.to_le_bytes());
            zc.extend_from_slice(&(body.len() as u16).to_le_bytes());
            zc.extend_from_slice(&body);
        }
        let mut cex: Vec<u8> = vec![];
        if e.z64_first {
            cex.extend_from_slice(&zc);
        }
        let user_central: &[u8] = if e.extra_central.0.len() + zc.len() + aes_extra.len() > 65535 { &[] } else { &e.extra_central.0 };
        cex.extend_from_slice(user_central);
        cex.extend_from_slice(&aes_extra);
        if !e.z64_first {
            cex.extend_from_slice(&zc);
        }
        infos.push(BInfo {
            header_start,
            data_start,
            csize,
            usize: usz,
            crc,
            crc_recorded: crc_rec,
            central_start: 0,
            raw,
            plain,
            central_extra: cex,
            local_extra: lex,
            real_method: e.method,
            recorded_method,
        });
        // stash flags in iattr slot? no: recompute below
    }
    img.extend_from_slice(&junk(991, l.gap_before_cd as usize));
    // central directory
    let n = l.entries.len();
    let mut order: Vec<usize> = (0..n).collect();
    if n > 0 {
        order.rotate_left(l.central_rot as usize % n);
    }
    if l.central_rev {
        order.reverse();
    }
    let cd_start = img.len() as u64;
    let mut out_infos: Vec<BInfo> = vec![];
    for &ei in &order {
        let e = &l.entries[ei];
        let mut info = infos[ei].clone();
        info.central_start = img.len() as u64;
        let mut flags: u16 = (if e.utf8 { 0x800 } else { 0 }) | (e.gp_hint & 0x6);
        let mut dd = e.dd;
        if let Some(enc) = &e.enc {
            flags |= 1;
            if let Enc::ZipCrypto { infozip: true, .. } = enc {
                if dd == 0 {
                    dd = 1;
                }
            }
        }
        if dd != 0 {
            flags |= 8;
        }
        let rel_off = info.header_start - base + hole;
        let z64_central = e.z64_central | if rel_off >= 0xFFFF_FFFF { 4 } else { 0 };
        let needs45 = z64_central & 0x0f != 0;
        img.extend_from_slice(&SIG_CENTRAL.to_le_bytes());
        img.extend_from_slice(&(((e.sys as u16) << 8) | e.ver as u16).to_le_bytes());
        img.extend_from_slice(&(if needs45 { 45u16 } else { e.ver as u16 }).to_le_bytes());
        img.extend_from_slice(&flags.to_le_bytes());
        img.extend_from_slice(&info.recorded_method.to_le_bytes());
        img.extend_from_slice(&e.dos.1.to_le_bytes());
        img.extend_from_slice(&e.dos.0.to_le_bytes());
        img.extend_from_slice(&info.crc_recorded.to_le_bytes());
        img.extend_from_slice(&(if z64_central & 2 != 0 { 0xFFFF_FFFF } else { info.csize as u32 }).to_le_bytes());
        img.extend_from_slice(&(if z64_central & 1 != 0 { 0xFFFF_FFFF } else { info.usize as u32 }).to_le_bytes());
        let cname = e.central_name.as_ref().unwrap_or(&e.name);
        img.extend_from_slice(&(cname.0.len() as u16).to_le_bytes());
        img.extend_from_slice(&(info.central_extra.len() as u16).to_le_bytes());
        img.extend_from_slice(&(e.comment.0.len() as u16).to_le_bytes());
        img.extend_from_slice(&(if z64_central & 8 != 0 { 0xFFFFu16 } else { 0 }).to_le_bytes());
        img.extend_from_slice(&e.iattr.to_le_bytes());
        img.extend_from_slice(&e.eattr.to_le_bytes());
        img.extend_from_slice(&(if z64_central & 4 != 0 { 0xFFFF_FFFF } else { rel_off as u32 }).to_le_bytes());
        img.extend_from_slice(&cname.0);
        img.extend_from_slice(&info.central_extra);
        img.extend_from_slice(&e.comment.0);
        out_infos.push(info);
    }
    let cd_size = img.len() as u64 - cd_start;
    let rel_cd = cd_start - base + hole;
    let zip64_end = l.force_z64_end || rel_cd >= 0xFFFF_FFFF || cd_size >= 0xFFFF_FFFF || n >= 0xFFFF;
    if zip64_end {
        let rec_rel = img.len() as u64 - base + hole;
        img.extend_from_slice(&SIG_Z64_EOCD.to_le_bytes());
        img.extend_from_slice(&44u64.to_le_bytes());
        img.extend_from_slice(&45u16.to_le_bytes());
        img.extend_from_slice(&45u16.to_le_bytes());
        img.extend_from_slice(&0u32.to_le_bytes());
        img.extend_from_slice(&0u32.to_le_bytes());
        img.extend_from_slice(&(n as u64).to_le_bytes());
        img.extend_from_slice(&(n as u64).to_le_bytes());
        img.extend_from_slice(&cd_size.to_le_bytes());
        img.extend_from_slice(&rel_cd.to_le_bytes());
        img.extend_from_slice(&SIG_Z64_LOC.to_le_bytes());
        img.extend_from_slice(&0u32.to_le_bytes());
        img.extend_from_slice(&rec_rel.to_le_bytes());
        img.extend_from_slice(&1u32.to_le_bytes());
    }
    let eocd_pos = img.len() as u64;
    img.extend_from_slice(&SIG_EOCD.to_le_bytes());
    img.extend_from_slice(&0u16.to_le_bytes());
    img.extend_from_slice(&0u16.to_le_bytes());
    if zip64_end {
        // the ZIP64 record is authoritative; the 32-bit fields are saturated or (when asked, and they fit) real
        let real = l.z64_end_real;
        let cnt = if real & 1 != 0 && n < 0xFFFF { n as u16 } else { 0xFFFF };
        img.extend_from_slice(&cnt.to_le_bytes());
        img.extend_from_slice(&cnt.to_le_bytes());
        let sz = if real & 2 != 0 && cd_size < 0xFFFF_FFFF { cd_size as u32 } else { 0xFFFF_FFFF };
        img.extend_from_slice(&sz.to_le_bytes());
        let off = if real & 4 != 0 && rel_cd < 0xFFFF_FFFF { rel_cd as u32 } else { 0xFFFF_FFFF };
        img.extend_from_slice(&off.to_le_bytes());
    } else {
        img.extend_from_slice(&(n as u16).to_le_bytes());
        img.extend_from_slice(&(n as u16).to_le_bytes());
        img.extend_from_slice(&(cd_size as u32).to_le_bytes());
        img.extend_from_slice(&(rel_cd as u32).to_le_bytes());
    }
    img.extend_from_slice(&(l.comment.0.len() as u16).to_le_bytes());
    img.extend_from_slice(&l.comment.0);
    if !zip64_end {
        img.extend_from_slice(&junk(4242, l.trailing as usize));
    }
    Built { image: img, infos: out_infos, order, eocd_pos, cd_start, zip64_end, hole_at: base, hole }
}

/// name bytes for the builder: ASCII, CP437 high bytes, or UTF-8 with the flag
pub fn gen_bname(r: &mut Rng, i: usize) -> (Hex, bool) {
    match r.below(6) {
        0 => (Hex(format!("f{i}").into_bytes()), false),
        1 => (Hex(format!("dir{}/f{i}.bin", r.below(3)).into_bytes()), false),
        2 => {
            let mut v = format!("c{i}").into_bytes();
            v.extend_from_slice(&[0x80 + r.below(128) as u8, 0x80 + r.below(128) as u8]);
            (Hex(v), false)
        }
        3 => (Hex(format!("ü{i}日本").into_bytes()), true),
        4 => (Hex(format!("d{i}/").into_bytes()), false),
        _ => (Hex(format!("n{}", r.below(4)).into_bytes()), r.chance(1, 2)),
    }
}

/// a list of well-formed extra records with ids the crate does not interpret
pub fn gen_extra(r: &mut Rng, max_records: u64) -> Vec<u8> {
    let mut v = vec![];
    for _ in 0..r.below(max_records + 1) {
        let id = r.pickc(&[0xbeefu16, 0x5455, 0x7875, 0x000a, 0xcafe, 0x0017]);
        let n = r.below(12) as usize;
        v.extend_from_slice(&id.to_le_bytes());
        v.extend_from_slice(&(n as u16).to_le_bytes());
        v.extend_from_slice(&r.bytes(n));
    }
    v
}
