//! PKWARE traditional cipher (from the APPNOTE pseudo-code, own CRC table) and WinZip AES
//! (PBKDF2-HMAC-SHA1 -> AES-CTR with little-endian counter -> HMAC-SHA1-80), composed here from the
//! RustCrypto primitives.

use crate::content::crc_step;
use aes::cipher::{generic_array::GenericArray, BlockEncrypt, KeyInit};
use hmac::{Hmac, Mac};
use sha1::Sha1;

#[derive(Clone)]
pub struct Keys(u32, u32, u32);
impl Keys {
    pub fn new(pw: &[u8]) -> Keys {
        let mut k = Keys(0x12345678, 0x23456789, 0x34567890);
        for b in pw {
            k.update(*b);
        }
        k
    }
    fn update(&mut self, c: u8) {
        self.0 = crc_step(self.0, c);
        self.1 = self.1.wrapping_add(self.0 & 0xff);
        self.1 = self.1.wrapping_mul(134775813).wrapping_add(1);
        self.2 = crc_step(self.2, (self.1 >> 24) as u8);
    }
    fn stream(&self) -> u8 {
        let t = (self.2 | 2) as u16;
        ((t.wrapping_mul(t ^ 1)) >> 8) as u8
    }
    pub fn dec(&mut self, c: u8) -> u8 {
        let p = c ^ self.stream();
        self.update(p);
        p
    }
    pub fn enc(&mut self, p: u8) -> u8 {
        let c = p ^ self.stream();
        self.update(p);
        c
    }
}

/// decrypt header+data; returns (plaintext without the 12-byte header, decrypted check byte)
pub fn zipcrypto_decrypt(pw: &[u8], data: &[u8]) -> (Vec<u8>, u8) {
    let mut k = Keys::new(pw);
    let mut out = Vec::with_capacity(data.len().saturating_sub(12));
    let mut check = 0u8;
    for (i, b) in data.iter().enumerate() {
        let p = k.dec(*b);
        if i == 11 {
            check = p;
        }
        if i >= 12 {
            out.push(p);
        }
    }
    (out, check)
}

/// encrypt: 12-byte header (11 caller-chosen bytes + check byte) followed by the data
pub fn zipcrypto_encrypt(pw: &[u8], header11: &[u8; 11], check: u8, plain: &[u8]) -> Vec<u8> {
    let mut k = Keys::new(pw);
    let mut out = Vec::with_capacity(plain.len() + 12);
    for b in header11 {
        out.push(k.enc(*b));
    }
    out.push(k.enc(check));
    for b in plain {
        out.push(k.enc(*b));
    }
    out
}

pub fn aes_key_len(strength: u8) -> usize {
    match strength {
        1 => 16,
        2 => 24,
        _ => 32,
    }
}
pub fn aes_salt_len(strength: u8) -> usize {
    aes_key_len(strength) / 2
}

fn ctr_xor(key: &[u8], data: &mut [u8]) {
    enum C {
        A(aes::Aes128),
        B(aes::Aes192),
        C(aes::Aes256),
    }
    let c = match key.len() {
        16 => C::A(aes::Aes128::new(GenericArray::from_slice(key))),
        24 => C::B(aes::Aes192::new(GenericArray::from_slice(key))),
        _ => C::C(aes::Aes256::new(GenericArray::from_slice(key))),
    };
    let mut counter: u128 = 1;
    for chunk in data.chunks_mut(16) {
        let mut block = GenericArray::clone_from_slice(&counter.to_le_bytes());
        match &c {
            C::A(a) => a.encrypt_block(&mut block),
            C::B(a) => a.encrypt_block(&mut block),
            C::C(a) => a.encrypt_block(&mut block),
        }
        for (d, k) in chunk.iter_mut().zip(block.iter()) {
            *d ^= *k;
        }
        counter += 1;
    }
}

fn derive(pw: &[u8], salt: &[u8], strength: u8) -> (Vec<u8>, Vec<u8>, [u8; 2]) {
    let kl = aes_key_len(strength);
    let mut dk = vec![0u8; 2 * kl + 2];
    pbkdf2::pbkdf2::<Hmac<Sha1>>(pw, salt, 1000, &mut dk);
    (dk[..kl].to_vec(), dk[kl..2 * kl].to_vec(), [dk[2 * kl], dk[2 * kl + 1]])
}

/// salt ++ verifier ++ ciphertext ++ mac(10)
pub fn winzip_encrypt(pw: &[u8], strength: u8, salt: &[u8], plain: &[u8]) -> Vec<u8> {
    let (ek, mk, ver) = derive(pw, salt, strength);
    let mut ct = plain.to_vec();
    ctr_xor(&ek, &mut ct);
    let mut mac = <Hmac<Sha1> as Mac>::new_from_slice(&mk).expect("hmac key");
    mac.update(&ct);
    let tag = mac.finalize().into_bytes();
    let mut out = Vec::with_capacity(salt.len() + 2 + ct.len() + 10);
    out.extend_from_slice(salt);
    out.extend_from_slice(&ver);
    out.extend_from_slice(&ct);
    out.extend_from_slice(&tag[..10]);
    out
}

/// returns Err("verifier") / Err("mac") / Ok(plain)
pub fn winzip_decrypt(pw: &[u8], strength: u8, blob: &[u8]) -> Result<Vec<u8>, &'static str> {
    let sl = aes_salt_len(strength);
    if blob.len() < sl + 12 {
        return Err("short");
    }
    let (ek, mk, ver) = derive(pw, &blob[..sl], strength);
    if blob[sl..sl + 2] != ver {
        return Err("verifier");
    }
    let ct = &blob[sl + 2..blob.len() - 10];
    let mut mac = <Hmac<Sha1> as Mac>::new_from_slice(&mk).expect("hmac key");
    mac.update(ct);
    let tag = mac.finalize().into_bytes();
    if tag[..10] != blob[blob.len() - 10..] {
        return Err("mac");
    }
    let mut p = ct.to_vec();
    ctr_xor(&ek, &mut p);
    Ok(p)
}
