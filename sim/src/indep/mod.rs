//! Independent ZIP toolkit written from APPNOTE 6.3.x for this harness. Shares no code with the
//! `zip` crate (only the codec / primitive crates, which are not what the properties are about).

pub mod build;
pub mod crypto;
pub mod parse;

pub use parse::*;

pub const SIG_LOCAL: u32 = 0x04034b50;
pub const SIG_CENTRAL: u32 = 0x02014b50;
pub const SIG_EOCD: u32 = 0x06054b50;
pub const SIG_Z64_EOCD: u32 = 0x06064b50;
pub const SIG_Z64_LOC: u32 = 0x07064b50;
pub const SIG_DD: u32 = 0x08074b50;

pub fn le16(b: &[u8], o: usize) -> u16 {
    u16::from_le_bytes([b[o], b[o + 1]])
}
pub fn le32(b: &[u8], o: usize) -> u32 {
    u32::from_le_bytes([b[o], b[o + 1], b[o + 2], b[o + 3]])
}
pub fn le64(b: &[u8], o: usize) -> u64 {
    let mut a = [0u8; 8];
    a.copy_from_slice(&b[o..o + 8]);
    u64::from_le_bytes(a)
}

/// split an extra field into (id, data) records; Err on a truncated tail
pub fn extra_records(extra: &[u8]) -> Result<Vec<(u16, Vec<u8>)>, String> {
    let mut out = vec![];
    let mut i = 0usize;
    while i < extra.len() {
        if extra.len() - i < 4 {
            return Err(format!("extra field: {} stray bytes at the end", extra.len() - i));
        }
        let id = le16(extra, i);
        let n = le16(extra, i + 2) as usize;
        if extra.len() - i - 4 < n {
            return Err(format!("extra field: record {id:#06x} claims {n} bytes, only {} left", extra.len() - i - 4));
        }
        out.push((id, extra[i + 4..i + 4 + n].to_vec()));
        i += 4 + n;
    }
    Ok(out)
}

/// decode `data` with the ZIP method id; None if the method is not one the harness can decode
pub fn decode(method: u16, data: &[u8], limit: usize) -> Option<Result<Vec<u8>, String>> {
    use std::io::Read;
    let mut out = Vec::new();
    let r: Result<(), String> = match method {
        0 => {
            out.extend_from_slice(data);
            Ok(())
        }
        8 => flate2::read::DeflateDecoder::new(data).take(limit as u64 + 1).read_to_end(&mut out).map(|_| ()).map_err(|e| e.to_string()),
        12 => bzip2::read::BzDecoder::new(data).take(limit as u64 + 1).read_to_end(&mut out).map(|_| ()).map_err(|e| e.to_string()),
        93 => match zstd::stream::read::Decoder::new(data) {
            Ok(d) => d.take(limit as u64 + 1).read_to_end(&mut out).map(|_| ()).map_err(|e| e.to_string()),
            Err(e) => Err(e.to_string()),
        },
        _ => return None,
    };
    Some(r.map(|_| out))
}

/// decode without materialising the output: (decoded length, CRC-32) - for entries whose decoded size is huge
/// (a few MiB of deflate can stand for more than 4 GiB of zeros)
pub fn decode_len_crc(method: u16, data: &[u8]) -> Option<Result<(u64, u32), String>> {
    use std::io::Read;
    let mut rd: Box<dyn Read + '_> = match method {
        0 => Box::new(data),
        8 => Box::new(flate2::read::DeflateDecoder::new(data)),
        12 => Box::new(bzip2::read::BzDecoder::new(data)),
        93 => match zstd::stream::read::Decoder::new(data) {
            Ok(d) => Box::new(d),
            Err(e) => return Some(Err(e.to_string())),
        },
        _ => return None,
    };
    let mut crc = crate::content::Crc::new();
    let mut n = 0u64;
    let mut buf = vec![0u8; 1 << 20];
    loop {
        match rd.read(&mut buf) {
            Ok(0) => break,
            Ok(k) => {
                crc.update(&buf[..k]);
                n += k as u64;
                if n > 1 << 36 {
                    return Some(Err("decodes to more than 64 GiB".into()));
                }
            }
            Err(e) if e.kind() == std::io::ErrorKind::Interrupted => {}
            Err(e) => return Some(Err(e.to_string())),
        }
    }
    Some(Ok((n, crc.finish())))
}

/// encode with the codec crates directly (for the builder)
pub fn encode(method: u16, level: i32, data: &[u8]) -> Vec<u8> {
    use std::io::Write;
    match method {
        8 => {
            let mut e = flate2::write::DeflateEncoder::new(Vec::new(), flate2::Compression::new(level.clamp(0, 9) as u32));
            e.write_all(data).expect("deflate");
            e.finish().expect("deflate finish")
        }
        12 => {
            let mut e = bzip2::write::BzEncoder::new(Vec::new(), bzip2::Compression::new(level.clamp(1, 9) as u32));
            e.write_all(data).expect("bzip2");
            e.finish().expect("bzip2 finish")
        }
        93 => zstd::stream::encode_all(data, level.clamp(1, 19)).expect("zstd"),
        _ => data.to_vec(),
    }
}

/// hand-rolled deflate emitter: stored blocks only, block size chosen by caller
pub fn deflate_stored_blocks(data: &[u8], block: usize) -> Vec<u8> {
    let mut out = vec![];
    let block = block.clamp(1, 65535);
    if data.is_empty() {
        out.extend_from_slice(&[1, 0, 0, 0xff, 0xff]);
        return out;
    }
    let mut chunks = data.chunks(block).peekable();
    while let Some(c) = chunks.next() {
        out.push(if chunks.peek().is_none() { 1 } else { 0 });
        out.extend_from_slice(&(c.len() as u16).to_le_bytes());
        out.extend_from_slice(&(!(c.len() as u16)).to_le_bytes());
        out.extend_from_slice(c);
    }
    out
}
