//! Strict structural parser / validator (C02 Appendix D), over flat or sparse images.

use super::*;
use crate::content::Crc;
use crate::simio::Store;

pub trait Src {
    fn total(&self) -> u64;
    fn fetch(&self, pos: u64, n: usize) -> Vec<u8>;
}
impl Src for [u8] {
    fn total(&self) -> u64 {
        self.len() as u64
    }
    fn fetch(&self, pos: u64, n: usize) -> Vec<u8> {
        if pos >= self.len() as u64 {
            return vec![];
        }
        let a = pos as usize;
        let b = (a + n).min(self.len());
        self[a..b].to_vec()
    }
}
impl Src for Vec<u8> {
    fn total(&self) -> u64 {
        self.len() as u64
    }
    fn fetch(&self, pos: u64, n: usize) -> Vec<u8> {
        self.as_slice().fetch(pos, n)
    }
}
impl Src for Store {
    fn total(&self) -> u64 {
        self.len
    }
    fn fetch(&self, pos: u64, n: usize) -> Vec<u8> {
        self.slice(pos, n)
    }
}

#[derive(Clone, Debug, Default)]
pub struct Central {
    pub pos: u64,
    pub made_by: u16,
    pub need: u16,
    pub flags: u16,
    pub method: u16,
    pub time: u16,
    pub date: u16,
    pub crc: u32,
    pub csize32: u32,
    pub usize32: u32,
    pub name: Vec<u8>,
    pub extra: Vec<u8>,
    pub comment: Vec<u8>,
    pub disk: u16,
    pub iattr: u16,
    pub eattr: u32,
    pub off32: u32,
    pub csize: u64,
    pub usize: u64,
    /// ZIP64-resolved offset as recorded (relative to the archive start)
    pub offset: u64,
    /// which fields came from the ZIP64 record: bit0 usize, bit1 csize, bit2 offset, bit3 disk
    pub z64_fields: u8,
    pub z64_record_len: Option<usize>,
    pub len: u64,
}

#[derive(Clone, Debug, Default)]
pub struct Local {
    pub pos: u64,
    pub need: u16,
    pub flags: u16,
    pub method: u16,
    pub time: u16,
    pub date: u16,
    pub crc: u32,
    pub csize32: u32,
    pub usize32: u32,
    pub name: Vec<u8>,
    pub extra: Vec<u8>,
    pub data_start: u64,
    pub csize: u64,
    pub usize: u64,
    pub has_z64: bool,
}

#[derive(Clone, Debug, Default)]
pub struct Z64 {
    pub loc_pos: u64,
    pub loc_disk: u32,
    pub loc_off: u64,
    pub loc_disks: u32,
    pub rec_pos: u64,
    pub rec_size: u64,
    pub made_by: u16,
    pub need: u16,
    pub disk: u32,
    pub cd_disk: u32,
    pub entries_disk: u64,
    pub entries: u64,
    pub cd_size: u64,
    pub cd_off: u64,
}

#[derive(Clone, Debug, Default)]
pub struct Parsed {
    pub eocd_pos: u64,
    pub disk: u16,
    pub cd_disk: u16,
    pub entries_disk16: u16,
    pub entries16: u16,
    pub cd_size32: u32,
    pub cd_off32: u32,
    pub comment: Vec<u8>,
    pub z64: Option<Z64>,
    pub archive_offset: u64,
    pub cd_start: u64,
    pub cd_size: u64,
    pub entries: u64,
    pub centrals: Vec<Central>,
    pub locals: Vec<Result<Local, String>>,
}

fn need<S: Src + ?Sized>(s: &S, pos: u64, n: usize, what: &str) -> Result<Vec<u8>, String> {
    if pos >= s.total() && n > 0 {
        return Err(format!("{what}: position {pos} beyond the image ({})", s.total()));
    }
    let v = s.fetch(pos, n);
    if v.len() < n {
        return Err(format!("{what}: need {n} bytes at {pos}, image has {}", s.total()));
    }
    Ok(v)
}

/// Find the end record: the last PK\5\6 whose comment reaches exactly EOF.
pub fn find_eocd_strict<S: Src + ?Sized>(s: &S) -> Result<u64, String> {
    let len = s.total();
    if len < 22 {
        return Err("image shorter than an end record".into());
    }
    let lo = len.saturating_sub(22 + 65535);
    let win = s.fetch(lo, (len - lo) as usize);
    let mut p = win.len() - 22;
    loop {
        if le32(&win, p) == SIG_EOCD {
            let cl = le16(&win, p + 20) as usize;
            if p + 22 + cl == win.len() {
                return Ok(lo + p as u64);
            }
        }
        if p == 0 {
            break;
        }
        p -= 1;
    }
    Err("no end record whose comment reaches EOF".into())
}

pub fn parse_central_at<S: Src + ?Sized>(s: &S, pos: u64) -> Result<Central, String> {
    let h = need(s, pos, 46, "central header")?;
    if le32(&h, 0) != SIG_CENTRAL {
        return Err(format!("no central header signature at {pos}"));
    }
    let nl = le16(&h, 28) as usize;
    let el = le16(&h, 30) as usize;
    let cl = le16(&h, 32) as usize;
    let var = need(s, pos.saturating_add(46), nl + el + cl, "central header variable part")?;
    let mut c = Central {
        pos,
        made_by: le16(&h, 4),
        need: le16(&h, 6),
        flags: le16(&h, 8),
        method: le16(&h, 10),
        time: le16(&h, 12),
        date: le16(&h, 14),
        crc: le32(&h, 16),
        csize32: le32(&h, 20),
        usize32: le32(&h, 24),
        name: var[..nl].to_vec(),
        extra: var[nl..nl + el].to_vec(),
        comment: var[nl + el..].to_vec(),
        disk: le16(&h, 34),
        iattr: le16(&h, 36),
        eattr: le32(&h, 38),
        off32: le32(&h, 42),
        len: (46 + nl + el + cl) as u64,
        ..Default::default()
    };
    c.csize = c.csize32 as u64;
    c.usize = c.usize32 as u64;
    c.offset = c.off32 as u64;
    if let Ok(recs) = extra_records(&c.extra) {
        if let Some((_, d)) = recs.iter().find(|(id, _)| *id == 1) {
            c.z64_record_len = Some(d.len());
            let mut o = 0usize;
            if c.usize32 == 0xFFFF_FFFF && d.len() >= o + 8 {
                c.usize = le64(d, o);
                o += 8;
                c.z64_fields |= 1;
            }
            if c.csize32 == 0xFFFF_FFFF && d.len() >= o + 8 {
                c.csize = le64(d, o);
                o += 8;
                c.z64_fields |= 2;
            }
            if c.off32 == 0xFFFF_FFFF && d.len() >= o + 8 {
                c.offset = le64(d, o);
                c.z64_fields |= 4;
            }
        }
    }
    Ok(c)
}

pub fn parse_local_at<S: Src + ?Sized>(s: &S, pos: u64) -> Result<Local, String> {
    let h = need(s, pos, 30, "local header")?;
    if le32(&h, 0) != SIG_LOCAL {
        return Err(format!("no local header signature at {pos}"));
    }
    let nl = le16(&h, 26) as usize;
    let el = le16(&h, 28) as usize;
    let var = need(s, pos.saturating_add(30), nl + el, "local header variable part")?;
    let mut l = Local {
        pos,
        need: le16(&h, 4),
        flags: le16(&h, 6),
        method: le16(&h, 8),
        time: le16(&h, 10),
        date: le16(&h, 12),
        crc: le32(&h, 14),
        csize32: le32(&h, 18),
        usize32: le32(&h, 22),
        name: var[..nl].to_vec(),
        extra: var[nl..].to_vec(),
        data_start: pos.saturating_add(30 + (nl + el) as u64),
        ..Default::default()
    };
    l.csize = l.csize32 as u64;
    l.usize = l.usize32 as u64;
    if let Ok(recs) = extra_records(&l.extra) {
        if let Some((_, d)) = recs.iter().find(|(id, _)| *id == 1) {
            // the local record MUST carry both sizes when present
            if d.len() >= 16 && l.csize32 == 0xFFFF_FFFF && l.usize32 == 0xFFFF_FFFF {
                l.usize = le64(d, 0);
                l.csize = le64(d, 8);
                l.has_z64 = true;
            }
        }
    }
    Ok(l)
}

/// Parse an archive whose end record sits exactly at EOF (writer output, builder output without
/// trailing garbage).
pub fn parse<S: Src + ?Sized>(s: &S) -> Result<Parsed, String> {
    let eocd_pos = find_eocd_strict(s)?;
    parse_with_eocd(s, eocd_pos)
}

pub fn parse_with_eocd<S: Src + ?Sized>(s: &S, eocd_pos: u64) -> Result<Parsed, String> {
    let e = need(s, eocd_pos, 22, "end record")?;
    let cl = le16(&e, 20) as usize;
    let mut p = Parsed {
        eocd_pos,
        disk: le16(&e, 4),
        cd_disk: le16(&e, 6),
        entries_disk16: le16(&e, 8),
        entries16: le16(&e, 10),
        cd_size32: le32(&e, 12),
        cd_off32: le32(&e, 16),
        comment: need(s, eocd_pos + 22, cl, "archive comment")?,
        ..Default::default()
    };
    // ZIP64 locator immediately before the end record?
    if eocd_pos >= 20 {
        let l = s.fetch(eocd_pos - 20, 20);
        if l.len() == 20 && le32(&l, 0) == SIG_Z64_LOC {
            let mut z = Z64 { loc_pos: eocd_pos - 20, loc_disk: le32(&l, 4), loc_off: le64(&l, 8), loc_disks: le32(&l, 16), ..Default::default() };
            // the record is expected immediately before the locator; find it by walking back: the
            // fixed part is 56 bytes (size field says 44 + extensible data)
            // try the stated offset first, then stated offset + k (prepended data)
            let mut found = None;
            if let Some(r) = try_z64_rec(s, z.loc_off) {
                found = Some((z.loc_off, r));
            } else if eocd_pos >= 20 + 56 {
                // search backwards for a record that ends exactly at the locator
                let hi = eocd_pos - 20 - 56;
                let lo = hi.saturating_sub(1 << 16);
                let mut q = hi;
                loop {
                    if let Some(r) = try_z64_rec(s, q) {
                        if (q + 12).checked_add(r.0) == Some(eocd_pos - 20) {
                            found = Some((q, r));
                            break;
                        }
                    }
                    if q == lo {
                        break;
                    }
                    q -= 1;
                }
            }
            match found {
                Some((pos, (size, b))) => {
                    z.rec_pos = pos;
                    z.rec_size = size;
                    z.made_by = le16(&b, 12);
                    z.need = le16(&b, 14);
                    z.disk = le32(&b, 16);
                    z.cd_disk = le32(&b, 20);
                    z.entries_disk = le64(&b, 24);
                    z.entries = le64(&b, 32);
                    z.cd_size = le64(&b, 40);
                    z.cd_off = le64(&b, 48);
                    p.z64 = Some(z);
                }
                None => return Err("ZIP64 locator present but no ZIP64 end record found".into()),
            }
        }
    }
    match &p.z64 {
        Some(z) => {
            p.archive_offset = z.rec_pos.checked_sub(z.loc_off).ok_or("ZIP64 record before its stated offset")?;
            p.cd_size = z.cd_size;
            p.entries = z.entries;
            p.cd_start = z.cd_off.checked_add(p.archive_offset).ok_or("cd offset overflow")?;
        }
        None => {
            p.cd_size = p.cd_size32 as u64;
            p.entries = p.entries16 as u64;
            p.archive_offset = eocd_pos.checked_sub(p.cd_size).and_then(|x| x.checked_sub(p.cd_off32 as u64)).ok_or("directory size+offset exceed end record position")?;
            p.cd_start = (p.cd_off32 as u64).saturating_add(p.archive_offset);
        }
    }
    let mut pos = p.cd_start;
    for i in 0..p.entries {
        let c = parse_central_at(s, pos).map_err(|e| format!("central #{i}: {e}"))?;
        pos = pos.saturating_add(c.len);
        p.centrals.push(c);
    }
    for c in &p.centrals {
        let lp = c.offset.checked_add(p.archive_offset);
        p.locals.push(match lp {
            Some(lp) => parse_local_at(s, lp),
            None => Err("local offset overflow".into()),
        });
    }
    Ok(p)
}

fn try_z64_rec<S: Src + ?Sized>(s: &S, pos: u64) -> Option<(u64, Vec<u8>)> {
    let b = s.fetch(pos, 56);
    if b.len() == 56 && le32(&b, 0) == SIG_Z64_EOCD {
        Some((le64(&b, 4), b))
    } else {
        None
    }
}

/// Format-inherent ambiguity (DESIGN R2) for the crate's search strategy, evaluated on the true
/// structure. `eocd_pos` is the true end record position.
pub fn ambiguous<S: Src + ?Sized>(s: &S, p: &Parsed) -> Option<&'static str> {
    let len = s.total();
    // (a) another PK\5\6 later than the true end record, at a position the backward search visits
    if len >= 22 {
        let from = p.eocd_pos + 1;
        let to = len - 22;
        if to >= from {
            let w = s.fetch(from, (to - from + 4) as usize);
            if w.windows(4).any(|x| le32(x, 0) == SIG_EOCD) {
                return Some("end-record signature inside the comment");
            }
        }
    }
    // (b) no ZIP64 records, but the 4 bytes at the locator probe position spell the locator signature
    if p.z64.is_none() && p.eocd_pos >= 20 {
        let w = s.fetch(p.eocd_pos - 20, 4);
        if w.len() == 4 && le32(&w, 0) == SIG_Z64_LOC {
            return Some("locator signature at the probe position");
        }
    }
    // (c) ZIP64 present: an earlier PK\6\6 between the nominal offset and the record
    if let Some(z) = &p.z64 {
        if z.rec_pos > z.loc_off {
            let w = s.fetch(z.loc_off, (z.rec_pos - z.loc_off + 3).min(1 << 20) as usize);
            if w.windows(4).take((z.rec_pos - z.loc_off) as usize).any(|x| le32(x, 0) == SIG_Z64_EOCD) {
                return Some("ZIP64 end-record signature before the record");
            }
        }
    }
    None
}

pub struct ValidateOpts<'a> {
    /// password per entry index (for ZipCrypto entries), used for rule 8
    pub passwords: &'a dyn Fn(usize) -> Option<Vec<u8>>,
    /// "tile exactly" relaxed to "do not overlap" (gaps allowed)
    pub allow_gaps: bool,
    /// decode data and compare CRC/size (skipped for entries whose extent exceeds this many bytes)
    pub decode_limit: u64,
    /// entries (by index) whose payload/CRC consistency is not judged (raw copies of undecodable data)
    pub skip_decode: &'a dyn Fn(usize) -> bool,
    /// entries whose local header was written by another producer and whose central header was
    /// re-emitted by the crate (append): local-vs-central agreement and flag rules are not judged
    pub relax_entry: &'a dyn Fn(usize) -> bool,
}

/// Appendix D. Returns the list of problems (empty = valid).
pub fn validate<S: Src + ?Sized>(s: &S, p: &Parsed, o: &ValidateOpts) -> Vec<String> {
    let mut bad: Vec<String> = vec![];
    let n = p.centrals.len() as u64;
    // rule 2 / 3: end records
    let cd_end = p.centrals.last().map(|c| c.pos + c.len).unwrap_or(p.cd_start);
    let real_cd_size = cd_end - p.cd_start;
    let rel_cd_start = p.cd_start - p.archive_offset;
    let needs_z64 = n > 0xFFFF || real_cd_size > 0xFFFF_FFFF || rel_cd_start > 0xFFFF_FFFF;
    match &p.z64 {
        Some(z) => {
            if z.entries != n || z.entries_disk != n {
                bad.push(format!("ZIP64 end record counts {}/{} != {n}", z.entries, z.entries_disk));
            }
            if z.cd_size != real_cd_size {
                bad.push(format!("ZIP64 end record directory size {} != {real_cd_size}", z.cd_size));
            }
            if z.rec_pos != cd_end {
                bad.push(format!("ZIP64 end record at {} is not immediately after the directory ({cd_end})", z.rec_pos));
            }
            if (z.rec_pos + 12).checked_add(z.rec_size) != Some(z.loc_pos) {
                bad.push("ZIP64 locator does not immediately follow the ZIP64 end record".into());
            }
            if z.loc_pos + 20 != p.eocd_pos {
                bad.push("ZIP64 locator not immediately before the end record".into());
            }
            if z.loc_off.checked_add(p.archive_offset) != Some(z.rec_pos) {
                bad.push("ZIP64 locator offset does not point at the ZIP64 end record".into());
            }
            if z.disk != 0 || z.cd_disk != 0 || z.loc_disk != 0 || z.loc_disks != 1 {
                bad.push("ZIP64 disk numbers are not those of a single-disk archive".into());
            }
            // 16/32-bit fields: saturated or exact
            let e16 = n.min(0xFFFF) as u16;
            if p.entries16 != e16 && p.entries16 != 0xFFFF {
                bad.push(format!("end record entry count {} neither exact nor saturated", p.entries16));
            }
            if p.cd_size32 as u64 != real_cd_size.min(0xFFFF_FFFF) && p.cd_size32 != 0xFFFF_FFFF {
                bad.push("end record directory size neither exact nor saturated".into());
            }
            if p.cd_off32 as u64 != rel_cd_start.min(0xFFFF_FFFF) && p.cd_off32 != 0xFFFF_FFFF {
                bad.push("end record directory offset neither exact nor saturated".into());
            }
        }
        None => {
            if needs_z64 {
                bad.push(format!("ZIP64 end record missing although entries={n} cd_size={real_cd_size} cd_start={rel_cd_start}"));
            }
            if p.entries16 as u64 != n || p.entries_disk16 as u64 != n {
                bad.push(format!("end record counts {}/{} != {n}", p.entries16, p.entries_disk16));
            }
            if p.cd_size32 as u64 != real_cd_size {
                bad.push(format!("end record directory size {} != {real_cd_size}", p.cd_size32));
            }
        }
    }
    if cd_end != p.z64.as_ref().map(|z| z.rec_pos).unwrap_or(p.eocd_pos) && p.z64.is_none() {
        bad.push(format!("directory ends at {cd_end}, end record at {}", p.eocd_pos));
    }
    if p.disk != 0 || p.cd_disk != 0 {
        bad.push("end record disk numbers non-zero".into());
    }
    // per entry
    let mut extents: Vec<(u64, u64, usize)> = vec![];
    for (i, c) in p.centrals.iter().enumerate() {
        let l = match &p.locals[i] {
            Ok(l) => l,
            Err(e) => {
                bad.push(format!("entry {i}: {e}"));
                continue;
            }
        };
        let relaxed = (o.relax_entry)(i);
        if relaxed {
            // only the extent is judged
            if let Some(end) = l.data_start.checked_add(c.csize) {
                if end > p.cd_start {
                    bad.push(format!("entry {i}: data extent ends at {end}, beyond the directory start {}", p.cd_start));
                }
                extents.push((l.pos, end, i));
            }
            continue;
        }
        if l.name != c.name {
            bad.push(format!("entry {i}: local name ({} bytes) != central name ({} bytes)", l.name.len(), c.name.len()));
        }
        if l.flags != c.flags {
            bad.push(format!("entry {i}: local flags {:#x} != central {:#x}", l.flags, c.flags));
        }
        if l.method != c.method {
            bad.push(format!("entry {i}: local method {} != central {}", l.method, c.method));
        }
        if l.time != c.time || l.date != c.date {
            bad.push(format!("entry {i}: local time/date != central"));
        }
        let dd = c.flags & 8 != 0;
        if !dd {
            if l.crc != c.crc {
                bad.push(format!("entry {i}: local crc {:#x} != central {:#x}", l.crc, c.crc));
            }
            if l.csize != c.csize || l.usize != c.usize {
                bad.push(format!("entry {i}: local sizes {}/{} != central {}/{}", l.csize, l.usize, c.csize, c.usize));
            }
        }
        // ZIP64 presence: a field that does not fit must come from a ZIP64 record
        if c.usize > 0xFFFF_FFFF && c.z64_fields & 1 == 0 || c.csize > 0xFFFF_FFFF && c.z64_fields & 2 == 0 || c.offset > 0xFFFF_FFFF && c.z64_fields & 4 == 0 {
            bad.push(format!("entry {i}: 64-bit value without ZIP64 record"));
        }
        if let Some(rl) = c.z64_record_len {
            let want = 8 * ((c.usize32 == 0xFFFF_FFFF) as usize + (c.csize32 == 0xFFFF_FFFF) as usize + (c.off32 == 0xFFFF_FFFF) as usize);
            if rl < want {
                bad.push(format!("entry {i}: central ZIP64 record holds {rl} bytes but {want} are needed for the saturated fields"));
            }
        }
        // rule 5: flags
        let non_ascii = c.name.iter().any(|b| *b >= 0x80);
        for (w, f) in [("local", l.flags), ("central", c.flags)] {
            if (f & 0x800 != 0) != non_ascii {
                bad.push(format!("entry {i}: {w} UTF-8 flag {} but name non-ASCII = {non_ascii}", f & 0x800 != 0));
            }
        }
        // rule 7
        if let Err(e) = extra_records(&c.extra) {
            bad.push(format!("entry {i}: central {e}"));
        }
        if let Err(e) = extra_records(&l.extra) {
            bad.push(format!("entry {i}: local {e}"));
        }
        // rule 6: extents
        let start = l.pos;
        let end = l.data_start.checked_add(c.csize);
        match end {
            Some(end) => {
                if end > p.cd_start {
                    bad.push(format!("entry {i}: data extent ends at {end}, beyond the directory start {}", p.cd_start));
                }
                extents.push((start, end, i));
            }
            None => bad.push(format!("entry {i}: extent overflow")),
        }
        // rule 8 for huge stored entries: stream the extent instead of materialising it
        if !(o.skip_decode)(i) && c.csize > o.decode_limit && c.method == 0 && c.flags & 1 == 0 && end.map(|e| e <= s.total()).unwrap_or(false) {
            if c.usize != c.csize {
                bad.push(format!("entry {i}: stored entry with sizes {} / {}", c.csize, c.usize));
            }
            let mut crc = Crc::new();
            let mut off = 0u64;
            while off < c.csize {
                let n = (c.csize - off).min(1 << 20) as usize;
                let b = s.fetch(l.data_start + off, n);
                crc.update(&b);
                off += n as u64;
            }
            if crc.finish() != c.crc {
                bad.push(format!("entry {i}: CRC of the stored data {:#x} != recorded {:#x}", crc.finish(), c.crc));
            }
        }
        // rule 8
        if !(o.skip_decode)(i) && c.csize <= o.decode_limit && end.map(|e| e <= s.total()).unwrap_or(false) {
            let mut data = s.fetch(l.data_start, c.csize as usize);
            let mut ok_to_decode = true;
            if c.flags & 1 != 0 {
                match (o.passwords)(i) {
                    Some(pw) => {
                        if c.method == 99 {
                            ok_to_decode = false;
                        } else if data.len() < 12 {
                            bad.push(format!("entry {i}: encrypted entry shorter than its 12-byte header"));
                            ok_to_decode = false;
                        } else {
                            let check = if dd { (c.time >> 8) as u8 } else { (c.crc >> 24) as u8 };
                            match crypto::zipcrypto_decrypt(&pw, &data) {
                                (plain, cb) => {
                                    if cb != check {
                                        bad.push(format!("entry {i}: ZipCrypto check byte {cb:#x} != {check:#x} under the model password"));
                                        ok_to_decode = false;
                                    }
                                    data = plain;
                                }
                            }
                        }
                    }
                    None => ok_to_decode = false,
                }
            }
            if ok_to_decode && c.usize > (256 << 20) {
                // huge decoded size: stream it (length + CRC only)
                match super::decode_len_crc(c.method, &data) {
                    Some(Ok((n, crc))) => {
                        if n != c.usize {
                            bad.push(format!("entry {i}: decoded {n} bytes, header says {}", c.usize));
                        }
                        if crc != c.crc {
                            bad.push(format!("entry {i}: CRC of decoded data {crc:#x} != recorded {:#x}", c.crc));
                        }
                    }
                    Some(Err(e)) => bad.push(format!("entry {i}: data does not decode with method {}: {e}", c.method)),
                    None => {}
                }
            } else if ok_to_decode {
                match decode(c.method, &data, c.usize.min(1 << 31) as usize) {
                    Some(Ok(plain)) => {
                        if plain.len() as u64 != c.usize {
                            bad.push(format!("entry {i}: decoded {} bytes, header says {}", plain.len(), c.usize));
                        }
                        let mut crc = Crc::new();
                        crc.update(&plain);
                        if crc.finish() != c.crc {
                            bad.push(format!("entry {i}: CRC of decoded data {:#x} != recorded {:#x}", crc.finish(), c.crc));
                        }
                    }
                    Some(Err(e)) => bad.push(format!("entry {i}: data does not decode with method {}: {e}", c.method)),
                    None => {}
                }
            }
        }
    }
    extents.sort();
    for w in extents.windows(2) {
        if w[0].1 > w[1].0 {
            bad.push(format!("entries {} and {} overlap ({}..{} vs {}..)", w[0].2, w[1].2, w[0].0, w[0].1, w[1].0));
        } else if w[0].1 < w[1].0 && !o.allow_gaps {
            bad.push(format!("gap of {} bytes between entries {} and {}", w[1].0 - w[0].1, w[0].2, w[1].2));
        }
    }
    if let Some(last) = extents.last() {
        if last.1 < p.cd_start && !o.allow_gaps {
            bad.push(format!("gap of {} bytes between the last entry and the directory", p.cd_start - last.1));
        }
    }
    bad
}
