//! zipsim: deterministic simulation with fault injection for the zip crate.
mod content;
mod indep;
mod model;
mod ops;
mod rng;
mod runner;
mod scen;
mod simio;
mod verify;

use runner::*;
use serde_json::{json, Value};
use std::collections::{BTreeMap, HashSet};
use std::time::{Duration, Instant};

#[global_allocator]
static ALLOC: runner::heap::Counting = runner::heap::Counting;

fn arg<'a>(args: &'a [String], name: &str) -> Option<&'a str> {
    args.iter().position(|a| a == name).and_then(|i| args.get(i + 1)).map(|s| s.as_str())
}

fn tier_of(s: Option<&str>) -> Tier {
    match s {
        Some("thorough") => Tier::Thorough,
        _ => Tier::Quick,
    }
}

fn selfcheck() -> Result<(), String> {
    simio::selfcheck()?;
    if content::crc32(b"123456789") != 0xCBF43926 {
        return Err("own CRC-32 is wrong".into());
    }
    if scen::common::cp437(&(0x80..=0xffu8).collect::<Vec<u8>>()).chars().count() != 128 {
        return Err("cp437 table size".into());
    }
    // the independent AES composition must decrypt the third-party fixture shipped with the repo
    indep_fixture_check()?;
    Ok(())
}

fn indep_fixture_check() -> Result<(), String> {
    let path = "/repo/tests/data/aes_archive.zip";
    let img = match std::fs::read(path) {
        Ok(b) => b,
        Err(_) => return Ok(()), // fixture absent: nothing to validate against
    };
    let p = indep::parse(&img).map_err(|e| format!("indep cannot parse {path}: {e}"))?;
    let mut checked = 0;
    for (i, c) in p.centrals.iter().enumerate() {
        if c.method != 99 {
            continue;
        }
        let recs = indep::extra_records(&c.extra).map_err(|e| e.to_string())?;
        let aes = recs.iter().find(|(id, _)| *id == 0x9901).ok_or("fixture: no AES extra")?;
        let strength = aes.1[4];
        let l = p.locals[i].as_ref().map_err(|e| e.clone())?;
        let blob = &img[l.data_start as usize..(l.data_start + c.csize) as usize];
        let plain = indep::crypto::winzip_decrypt(b"helloworld", strength, blob).map_err(|e| format!("fixture entry {i}: {e}"))?;
        let inner = indep::le16(&aes.1, 5);
        let dec = indep::decode(inner, &plain, 1 << 20).ok_or("fixture: inner method")?.map_err(|e| e)?;
        if dec.is_empty() {
            return Err("fixture decrypted to nothing".into());
        }
        checked += 1;
    }
    if checked == 0 {
        return Err("fixture: no AES entries found".into());
    }
    Ok(())
}

fn main() {
    let args: Vec<String> = std::env::args().collect();
    let cmd = args.get(1).map(|s| s.as_str()).unwrap_or("");
    install_panic_hook();
    match cmd {
        "worker" => {
            let sc = scen::lookup(arg(&args, "--scenario").unwrap_or("")).expect("scenario");
            let seed: u64 = arg(&args, "--seed").and_then(|s| s.parse().ok()).unwrap_or(0);
            limit_memory();
            worker_main(sc, arg(&args, "--property").unwrap_or(""), tier_of(arg(&args, "--tier")), seed);
        }
        "eval" => {
            let sc = scen::lookup(arg(&args, "--scenario").unwrap_or("")).expect("scenario");
            limit_memory();
            eval_main(sc, arg(&args, "--property").unwrap_or(""), tier_of(arg(&args, "--tier")));
        }
        "selfcheck" => match selfcheck() {
            Ok(()) => println!("selfcheck ok"),
            Err(e) => {
                eprintln!("selfcheck failed: {e}");
                std::process::exit(2);
            }
        },
        "replay" => {
            let path = args.get(2).expect("replay file");
            let code = replay(path, &|n| scen::lookup(n));
            std::process::exit(code);
        }
        "check" => {
            let id = args.get(2).expect("property id").clone();
            let tier = tier_of(arg(&args, "--tier").or(std::env::var("VERIF_TIER").ok().as_deref()));
            let seed: u64 = arg(&args, "--seed").and_then(|s| s.parse().ok()).or_else(|| std::env::var("VERIF_SEED").ok().and_then(|s| s.parse().ok())).unwrap_or(20260929);
            std::process::exit(check(&id, tier, seed, &args));
        }
        "dbg-prog" => {
            // zipsim dbg-prog <case.json with src.Prog> <k> : run the writer program with Fail(Other) at sink call k, print steps
            let txt = std::fs::read_to_string(args.get(2).expect("case file")).expect("read");
            let v: Value = serde_json::from_str(&txt).expect("json");
            let v = if v.get("case").is_some() { v["case"].clone() } else { v };
            let ops: Vec<ops::Op> = serde_json::from_value(v["src"]["Prog"].clone()).expect("ops");
            let k: u64 = args.get(3).and_then(|s| s.parse().ok()).unwrap_or(u64::MAX);
            let pol = if k == u64::MAX { simio::Policy::Pure } else { simio::Policy::At { k, d: simio::Decision::Fail(simio::EK::Other) } };
            let st = simio::shared_empty();
            let srcs: Vec<scen::common::Source> = serde_json::from_value(v["sources"].clone()).unwrap_or_default();
            let (src_stores, _infos, _imgs) = scen::common::sources_to_stores(&srcs);
            let (out, io, _s) = scen::prog::exec_full(st.clone(), false, &ops, &src_stores, &pol, &simio::Policy::Pure, 0, true);
            for (o, s) in ops.iter().zip(out.steps.iter()) {
                println!("{:<14} -> {:?} accepted={}", o.kind(), s.res, s.accepted);
            }
            println!("finish -> {:?}; sink calls {}; image {} bytes", out.final_res, simio::stats(&io).calls, simio::image_of(&st).len());
            let img = simio::image_of(&st);
            println!("{}", img.iter().take(200).map(|b| format!("{b:02x}")).collect::<Vec<_>>().join(""));
        }
        "gen" => {
            // print a generated case (debugging aid)
            let sc = scen::lookup(arg(&args, "--scenario").unwrap_or("")).expect("scenario");
            let seed: u64 = arg(&args, "--seed").and_then(|s| s.parse().ok()).unwrap_or(20260929);
            let idx: u64 = arg(&args, "--idx").and_then(|s| s.parse().ok()).unwrap_or(0);
            println!("{}", sc.gen(seed, idx, tier_of(arg(&args, "--tier"))));
        }
        _ => {
            eprintln!("usage: zipsim check <ID> [--tier quick|thorough] [--seed N] | replay <file> | selfcheck");
            std::process::exit(2);
        }
    }
}

fn limit_memory() {
    // backstop only; the heap oracle of C05 is the counting allocator
    unsafe {
        let lim = libc::rlimit { rlim_cur: 6 << 30, rlim_max: 6 << 30 };
        libc::setrlimit(libc::RLIMIT_AS, &lim);
        // keep freed memory in the heap: the compressors allocate and free multi-MiB contexts per entry,
        // and returning them to the kernel every time costs more than the simulation itself
        libc::mallopt(libc::M_MMAP_THRESHOLD, 32 << 20);
        libc::mallopt(libc::M_TRIM_THRESHOLD, 1 << 30);
        libc::mallopt(libc::M_TOP_PAD, 64 << 20);
    }
}

fn check(id: &str, tier: Tier, seed: u64, args: &[String]) -> i32 {
    let t0 = Instant::now();
    if let Err(e) = selfcheck() {
        eprintln!("harness selfcheck failed: {e}");
        return 2;
    }
    let props = scen::props();
    let pc = match props.iter().find(|p| p.id == id) {
        Some(p) => p,
        None => {
            eprintln!("property {id} has no check (see MANIFEST.json not_applicable)");
            return 2;
        }
    };
    let known = load_known();
    let _ = std::fs::remove_dir_all(format!("{}/target/sandbox", verif_root()));
    let workers: usize = arg(args, "--workers").and_then(|s| s.parse().ok()).or_else(|| std::env::var("VERIF_WORKERS").ok().and_then(|s| s.parse().ok())).unwrap_or(16);
    let scale: f64 = std::env::var("VERIF_SCALE").ok().and_then(|s| s.parse().ok()).unwrap_or(1.0);
    let thorough_secs: u64 = std::env::var("VERIF_THOROUGH_SECS").ok().and_then(|s| s.parse().ok()).unwrap_or(780);
    let only = arg(args, "--scenario");
    println!("check {id} tier={} seed={seed} workers={workers}", tier.name());
    let mut evaluations = 0u64;
    let mut runs = 0u64;
    let mut sigs: HashSet<u64> = HashSet::new();
    let mut probes: BTreeMap<String, u64> = BTreeMap::new();
    let mut fired: BTreeMap<String, u64> = BTreeMap::new();
    let mut skips: BTreeMap<String, u64> = BTreeMap::new();
    let mut io_events = 0u64;
    let mut samples: Vec<Value> = vec![];
    let mut rules: Vec<String> = vec![];
    let mut per_scen: Vec<Value> = vec![];
    let mut known_hit: BTreeMap<String, (u64, String)> = BTreeMap::new();
    let mut violations: Vec<(String, String)> = vec![]; // (class, replay path)
    let mut harness_errors: Vec<String> = vec![];
    let nsc = pc.scenarios.iter().filter(|s| only.map(|o| o == s.name()).unwrap_or(true)).count().max(1) as u64;
    for sc in pc.scenarios.iter() {
        if let Some(o) = only {
            if o != sc.name() {
                continue;
            }
        }
        let total = ((sc.total(tier) as f64) * scale).max(1.0) as u64;
        let deadline = match tier {
            Tier::Quick => Some(Instant::now() + Duration::from_secs(170)),
            Tier::Thorough => Some(Instant::now() + Duration::from_secs(thorough_secs / nsc)),
        };
        let cfg = BatchCfg { scenario: *sc, property: id, tier, seed, total, workers, deadline, stall_secs: 120 };
        let res = run_batch(&cfg);
        println!(
            "  scenario {}: runs={} evaluations={} pass={} skip={} known={} violations={} distinct_nontrivial={} wall={:.1}s{}",
            sc.name(),
            res.runs,
            res.evaluations,
            res.pass,
            res.skip,
            res.known.values().map(|v| v.0).sum::<u64>(),
            res.found.len(),
            res.sigs.len(),
            res.wall_s,
            if res.stopped_early { " (stopped at time box)" } else { "" }
        );
        evaluations += res.evaluations;
        runs += res.runs;
        let tag = rng::fnv(sc.name().as_bytes());
        for s in &res.sigs {
            sigs.insert(rng::mix(*s, tag));
        }
        for (k, v) in &res.probes {
            *probes.entry(k.clone()).or_insert(0) += v;
        }
        for (k, v) in &res.fired {
            *fired.entry(k.clone()).or_insert(0) += v;
        }
        for (k, v) in &res.skips {
            *skips.entry(k.clone()).or_insert(0) += v;
        }
        io_events += res.io_events;
        for s in res.samples.iter().take(2) {
            samples.push(json!({"scenario": sc.name(), "case": truncate_json(s, 2000)}));
        }
        rules.push(format!("[{}] {}", sc.name(), sc.rule()));
        for (k, (n, d)) in &res.known {
            let e = known_hit.entry(k.clone()).or_insert((0, d.clone()));
            e.0 += n;
        }
        per_scen.push(json!({"scenario": sc.name(), "runs": res.runs, "evaluations": res.evaluations, "distinct_nontrivial": res.sigs.len(), "wall_s": res.wall_s, "batch_digest": format!("{:016x}", res.digest), "stopped_at_time_box": res.stopped_early, "exhaustive_note": sc.exhaustive_note()}));
        for h in res.harness.iter().take(5) {
            harness_errors.push(format!("{}: {h}", sc.name()));
        }
        // violations: one replay file per distinct class (first occurrence by run index), minimised
        let mut found = res.found;
        found.sort_by_key(|f| f.idx);
        let mut seen_classes: HashSet<String> = HashSet::new();
        for f in found {
            if !seen_classes.insert(f.class.clone()) {
                continue;
            }
            if seen_classes.len() > 6 {
                break;
            }
            // confirm in a fresh process, then minimise
            let conf = eval_subprocess_with(sc.worker_exe(), sc.name(), id, tier, &f.case, 300);
            let (class, detail) = match &conf.verdict {
                Verdict::Violation { class, detail } => (class.clone(), detail.clone()),
                Verdict::Known { id: kid, detail } => {
                    let e = known_hit.entry(kid.clone()).or_insert((0, detail.clone()));
                    e.0 += 1;
                    continue;
                }
                Verdict::Pass | Verdict::Skip(_) if f.class == "abort/SIGKILL" => {
                    // the stall watchdog killed a worker, but the same case completes in a fresh process:
                    // a real hang is deterministic and would hang again, so this was machine load
                    *probes.entry("watchdog_kill_not_reproduced".into()).or_insert(0) += 1;
                    println!("  note: run {} of {} was killed by the stall watchdog but completes in a fresh process (machine load); not a finding", f.idx, sc.name());
                    continue;
                }
                other => {
                    harness_errors.push(format!("{}: run {} reported {} but a fresh process says {:?} (non-determinism)", sc.name(), f.idx, f.class, other));
                    continue;
                }
            };
            let shrink_deadline = Instant::now() + Duration::from_secs(if tier == Tier::Quick { 40 } else { 120 });
            let (min_case, evals) = shrink(*sc, id, tier, &f.case, &class, 400, shrink_deadline);
            let fin = eval_subprocess_with(sc.worker_exe(), sc.name(), id, tier, &min_case, 300);
            let (fclass, fdetail, fdig) = match &fin.verdict {
                Verdict::Violation { class, detail } => (class.clone(), detail.clone(), fin.digest),
                _ => (class.clone(), detail.clone(), conf.digest),
            };
            let rf = ReplayFile { format: 1, property: id.to_string(), scenario: sc.name().to_string(), tier: tier.name().to_string(), seed, run: f.idx, class: fclass.clone(), detail: fdetail.clone(), schedule_digest: fdig, minimised: evals > 0, shrink_evals: evals, case: min_case };
            let path = write_replay(&rf);
            println!("  violation class={fclass}\n    detail: {fdetail}\n    run={} shrink_evals={evals}", f.idx);
            violations.push((fclass, path));
        }
    }
    for f in &known.open {
        if f.property == id {
            if let Some((n, d)) = known_hit.get(&f.id) {
                println!("KNOWN-FINDING: property={id} {} ({}; hit {n} times this run, e.g. {d})", f.what, f.id);
            } else {
                println!("KNOWN-FINDING: property={id} {} ({}; listed, not reached by this run)", f.what, f.id);
            }
        }
    }
    // part C of C20: bin/check runs the compile-time Send + Sync probe and hands over its verdict
    if id == "C20" {
        match std::env::var("VERIF_PROBE_FAIL") {
            Ok(p) if !p.is_empty() => {
                println!("  violation class=C20/not-send-sync\n    detail: the Send + Sync probe does not compile: ZipArchive<R> is no longer Send + Sync for a Send + Sync reader (compiler output in the replay file)");
                violations.push(("C20/not-send-sync".into(), p));
                *probes.entry("sendsync_probe_compiles".into()).or_insert(0) += 0;
            }
            _ => {
                *probes.entry("sendsync_probe_compiles".into()).or_insert(0) += 1;
            }
        }
    }
    // part D of C20: bin/check runs sim-miri (std threads under Miri's seeded scheduler) and hands over the outcome
    if id == "C20" {
        let runs: u64 = std::env::var("VERIF_MIRI_RUNS").ok().and_then(|s| s.parse().ok()).unwrap_or(0);
        *probes.entry("miri_interpreter_runs_clean".into()).or_insert(0) += runs;
        evaluations += runs;
        if let Ok(p) = std::env::var("VERIF_MIRI_FAIL") {
            if !p.is_empty() {
                let first = std::fs::read_to_string(&p).ok().and_then(|t| t.lines().find(|l| l.contains("MIRI-MISMATCH") || l.contains("Undefined Behavior") || l.contains("deadlock")).map(|l| l.to_string())).unwrap_or_default();
                println!("  violation class=C20/miri\n    detail: clones on real threads under Miri: {first}");
                violations.push(("C20/miri".into(), p));
            }
        }
        if let Ok(why) = std::env::var("VERIF_MIRI_SKIPPED") {
            if !why.is_empty() {
                println!("  note: Miri part skipped ({why})");
                *skips.entry("tool_missing:miri".into()).or_insert(0) += 1;
            }
        }
    }
    let wall = t0.elapsed().as_secs_f64();
    let zero_probes: Vec<&String> = probes.iter().filter(|(_, v)| **v == 0).map(|(k, _)| k).collect();
    let ev = json!({
        "property_id": id,
        "tier": tier.name(),
        "seed": seed,
        "level": pc.level,
        "coverage": {
            "evaluations": evaluations,
            "distinct_nontrivial": sigs.len(),
            "rule": rules.join(" || "),
            "samples": samples,
            "runs": runs,
            "runs_per_hour": if wall > 0.0 { (runs as f64 / wall * 3600.0) as u64 } else { 0 },
            "sim_io_events": io_events,
            "sim_time_note": "the crate has no clock; logical I/O calls on the simulated disk/stream are the simulated-time measure",
            "faults_fired": fired,
            "probes": probes,
            "probes_at_zero": zero_probes,
            "skipped": skips,
            "scenarios": per_scen,
            "components": {
                "real": ["zip (all modules, built from /repo working tree)", "flate2+miniz_oxide", "bzip2+libbz2", "zstd+libzstd", "crc32fast", "aes/hmac/sha1/pbkdf2", "byteorder", "time"],
                "stub": ["storage and streams: SimDisk/SimStream instead of File/pipe/socket/BufReader<File>"]
            },
            "known_findings_hit": known_hit.iter().map(|(k, v)| json!({"id": k, "count": v.0, "example": v.1})).collect::<Vec<_>>(),
        },
        "assumptions": pc.assumptions,
        "wall_s": wall,
        "violations": violations.len(),
    });
    let evdir = format!("{}/evidence", verif_root());
    let _ = std::fs::create_dir_all(&evdir);
    if let Err(e) = std::fs::write(format!("{evdir}/{id}.json"), serde_json::to_string_pretty(&ev).unwrap_or_default()) {
        eprintln!("cannot write evidence: {e}");
        return 2;
    }
    if !harness_errors.is_empty() {
        for h in &harness_errors {
            eprintln!("HARNESS-ERROR: {h}");
        }
        return 2;
    }
    if !violations.is_empty() {
        for (_c, p) in &violations {
            println!("VIOLATION property={id} replay={p}");
        }
        return 1;
    }
    println!("OK property={id} evaluations={evaluations} distinct_nontrivial={} wall={wall:.1}s", sigs.len());
    0
}

fn truncate_json(v: &Value, max: usize) -> Value {
    let s = v.to_string();
    if s.len() <= max {
        v.clone()
    } else {
        let mut k = max;
        while !s.is_char_boundary(k) {
            k -= 1;
        }
        json!({"truncated_json": s[..k].to_string(), "full_len": s.len()})
    }
}
