//! Reference model: the writer state machine (Appendix C of DESIGN.md) and the expected archive.

use crate::content::{Content, Crc};
use crate::ops::{Op, Opts, Res, Step};

#[derive(Clone, Copy, Debug, PartialEq, Eq)]
pub enum St {
    Idle,
    InFile,
    InExtra { central_only: bool },
    AfterRaw,
    Closed,
    /// a pending extra-data buffer was rejected: the writer keeps it and refuses to move on
    Stuck,
    /// the compressor switch failed: the writer is closed for good
    Dead,
    /// anything else went wrong: nothing is assumed any more (R6)
    Unknown,
}

#[derive(Clone, Copy, Debug, PartialEq, Eq)]
pub enum MKind {
    File,
    Dir,
    Symlink,
    Raw,
    Base,
}

#[derive(Clone, Debug)]
pub struct MEntry {
    pub name: String,
    pub kind: MKind,
    pub method: u16,
    pub dos: (u16, u16),
    /// expected unix_mode() (None = not compared)
    pub mode: Option<u32>,
    /// compare only the permission bits (raw copies)
    pub mode_perm_only: bool,
    pub large: bool,
    pub password: Option<Vec<u8>>,
    /// content pieces: (descriptor, accepted prefix length)
    pub pieces: Vec<(Content, u64)>,
    pub extra_local: Vec<u8>,
    pub extra_central: Vec<u8>,
    pub has_extra: bool,
    pub align: Option<u16>,
    /// for raw copies: exact compressed bytes and recorded values of the source
    pub raw: Option<RawExpect>,
    /// bytes written after a raw copy (land after the copied data, covered by no size field)
    pub junk_after: u64,
    /// value returned by the creating call (start_file_aligned: padding; with_extra_data: preliminary data start)
    pub ret: u64,
    /// final data start returned by end_extra_data / end_local_start_central_extra_data
    pub ret_data_start: Option<u64>,
    /// method/level accepted by the compressor switch (deferred for start_file_with_extra_data)
    pub opts_ok: bool,
    /// entries inherited from a base archive (C13): unix_mode as the crate reported it before the append
    pub base_mode: Option<Option<u32>>,
    pub base_encrypted: bool,
}

#[derive(Clone, Debug)]
pub struct RawExpect {
    pub raw: Vec<u8>,
    pub crc: u32,
    pub usize: u64,
    pub csize: u64,
    pub method: u16,
    /// decoded content when the method is decodable and the source was not encrypted
    pub plain: Option<Vec<u8>>,
}

impl MEntry {
    pub fn len(&self) -> u64 {
        self.pieces.iter().map(|p| p.1).sum()
    }
    pub fn is_small(&self) -> bool {
        self.len() < (64 << 20) && !self.pieces.iter().any(|p| p.0.is_sparse())
    }
    pub fn bytes(&self) -> Vec<u8> {
        let mut v = Vec::with_capacity(self.len() as usize);
        for (c, n) in &self.pieces {
            let b = c.bytes();
            v.extend_from_slice(&b[..*n as usize]);
        }
        v
    }
    pub fn crc(&self) -> u32 {
        let mut crc = Crc::new();
        let mut buf = vec![0u8; 1 << 20];
        for (c, n) in &self.pieces {
            if c.is_sparse() {
                let mut off = 0u64;
                while off < *n {
                    let k = ((*n - off).min(buf.len() as u64)) as usize;
                    c.fill(off, &mut buf[..k]);
                    crc.update(&buf[..k]);
                    off += k as u64;
                }
            } else {
                let b = c.bytes();
                crc.update(&b[..*n as usize]);
            }
        }
        crc.finish()
    }
    /// bytes [off, off+buf.len()) of the expected content
    pub fn fill(&self, off: u64, buf: &mut [u8]) {
        let mut pos = 0u64;
        let end = off + buf.len() as u64;
        for (c, n) in &self.pieces {
            let (a, b) = (pos, pos + *n);
            let lo = a.max(off);
            let hi = b.min(end);
            if lo < hi {
                c.fill(lo - a, &mut buf[(lo - off) as usize..(hi - off) as usize]);
            }
            pos = b;
        }
    }
}

/// information about a raw-copy source entry, taken from the independent parser / builder
#[derive(Clone, Debug)]
pub struct SrcEntry {
    pub name: String,
    pub method: u16,
    pub crc: u32,
    pub csize: u64,
    pub usize: u64,
    pub dos: (u16, u16),
    /// unix mode the source declares (None if it has none)
    pub mode: Option<u32>,
    pub raw: Vec<u8>,
    pub plain: Option<Vec<u8>>,
    pub encrypted: bool,
}

#[derive(Clone, Copy, Debug, PartialEq, Eq)]
pub enum Expect {
    MustOk,
    MustErr,
    Either,
}

pub struct ModelCfg {
    /// names/comments/extra that do not fit their 16-bit length field must be rejected
    pub enforce_unrepresentable: bool,
    /// level 0 for bzip2 is treated as out of range (documented range after D10 is 1..=9)
    pub bzip2_level0_err: bool,
}

#[derive(Clone, Debug)]
pub struct Mismatch {
    pub class: String,
    pub detail: String,
}
fn mm(class: &str, detail: String) -> Mismatch {
    Mismatch { class: class.to_string(), detail }
}

pub struct Model {
    pub st: St,
    pub entries: Vec<MEntry>,
    pub comment: Vec<u8>,
    pub buf: Vec<u8>,
    pub cfg: ModelCfg,
    /// an entry-creating call failed or a write failed: R6 leniency is active
    pub lenient: bool,
    /// the archive is expected to be complete (last finish/drop happened in a clean state)
    pub complete: bool,
    /// finish() returned Ok at least once for the current writer lifetime
    pub finish_ok: bool,
    /// reached (state, op) pairs for the evidence
    pub reached: Vec<(u8, &'static str)>,
    pub had_write_after_raw: bool,
    pub chaos: bool,
    pub appended: bool,
    /// number of entries whose content was final when the first call failed (R6: they must survive
    /// whatever the failed call and its successors do)
    pub frozen: Option<usize>,
}

pub const RESERVED_IDS: [u16; 49] = [
    0x0001, 0x0007, 0x0008, 0x0009, 0x000a, 0x000c, 0x000d, 0x000e, 0x000f, 0x0014, 0x0015, 0x0016, 0x0017, 0x0018, 0x0019, 0x0020, 0x0021, 0x0022, 0x0023, 0x0065, 0x0066, 0x4690, 0x07c8, 0x2605, 0x2705,
    0x2805, 0x334d, 0x4341, 0x4453, 0x4704, 0x470f, 0x4b46, 0x4c41, 0x4d49, 0x4f4c, 0x5356, 0x5455, 0x554e, 0x5855, 0x6375, 0x6542, 0x7075, 0x756e, 0x7855, 0xa11e, 0xa220, 0xfd4a, 0x9901, 0x9902,
];

/// well-formed, unreserved, and fits next to the optional 20-byte local ZIP64 record
pub fn extra_ok(buf: &[u8], large: bool) -> bool {
    if buf.len() > 65535 || (large && buf.len() + 20 > 65535) {
        return false;
    }
    let mut i = 0usize;
    while i < buf.len() {
        if buf.len() - i < 4 {
            return false;
        }
        let id = u16::from_le_bytes([buf[i], buf[i + 1]]);
        let n = u16::from_le_bytes([buf[i + 2], buf[i + 3]]) as usize;
        if id == 1 || id <= 31 || RESERVED_IDS.contains(&id) {
            return false;
        }
        if buf.len() - i - 4 < n {
            return false;
        }
        i += 4 + n;
    }
    true
}

fn st_code(s: St) -> u8 {
    match s {
        St::Idle => 0,
        St::InFile => 1,
        St::InExtra { central_only: false } => 2,
        St::InExtra { central_only: true } => 3,
        St::AfterRaw => 4,
        St::Closed => 5,
        St::Unknown => 6,
        St::Stuck => 7,
        St::Dead => 8,
    }
}

impl Model {
    pub fn new(cfg: ModelCfg) -> Model {
        Model { st: St::Idle, entries: vec![], comment: vec![], buf: vec![], cfg, lenient: false, complete: false, finish_ok: false, reached: vec![], had_write_after_raw: false, chaos: false, appended: false, frozen: None }
    }

    fn opts_supported(&self, o: &Opts) -> bool {
        match o.method {
            0 => true, // Stored accepts any level silently when the compressor is already Stored (R4)
            8 => o.level.map(|l| (0..=9).contains(&l)).unwrap_or(true),
            12 => o.level.map(|l| (if self.cfg.bzip2_level0_err { 1 } else { 0 }..=9).contains(&l)).unwrap_or(true),
            // zstd's own range is ZSTD_minCLevel() (-131072) ..= 22; the doc comment quotes -7 as the lowest useful level
            93 => o.level.map(|l| (-131072..=22).contains(&l)).unwrap_or(true),
            _ => false,
        }
    }

    /// implicit close of whatever is open when a new entry / finish arrives: Ok(()) or the pending
    /// extra buffer is malformed
    fn pending_ok(&self) -> bool {
        match self.st {
            St::InExtra { central_only } => {
                let large = self.entries.last().map(|e| e.large).unwrap_or(false);
                let opts_ok = self.entries.last().map(|e| e.opts_ok).unwrap_or(true);
                extra_ok(&self.buf, large) && (central_only || opts_ok)
            }
            _ => true,
        }
    }

    fn commit_pending(&mut self) {
        if let St::InExtra { central_only } = self.st {
            let buf = std::mem::take(&mut self.buf);
            if let Some(e) = self.entries.last_mut() {
                if !central_only {
                    e.extra_local = buf.clone();
                }
                e.extra_central = buf;
            }
        }
    }

    pub fn expect(&self, op: &Op) -> Expect {
        use Expect::*;
        if matches!(self.st, St::Unknown | St::Stuck | St::Dead) {
            return match op {
                Op::SetComment { .. } => MustOk,
                _ => Either,
            };
        }
        let closed = self.st == St::Closed;
        match op {
            Op::StartFile { name, o } | Op::StartExtra { name, o } | Op::StartAligned { name, o, .. } => {
                if closed || !self.pending_ok() {
                    return MustErr;
                }
                if name.len() > 65535 {
                    return if self.cfg.enforce_unrepresentable { MustErr } else { Either };
                }
                // StartExtra/StartAligned defer the compressor switch to end_extra_data; an unsupported
                // method surfaces there for StartExtra, immediately for the other two
                match op {
                    Op::StartExtra { .. } => MustOk,
                    Op::StartAligned { align, .. } => {
                        if !self.opts_supported(o) {
                            MustErr
                        } else if *align > 1 {
                            Either // decided by arithmetic on the real offset: checked by the align oracle
                        } else {
                            MustOk
                        }
                    }
                    _ => {
                        if self.opts_supported(o) {
                            MustOk
                        } else {
                            MustErr
                        }
                    }
                }
            }
            Op::AddDir { name, .. } | Op::AddSymlink { name, .. } => {
                if closed || !self.pending_ok() {
                    return MustErr;
                }
                // a directory is stored under name + '/' unless it already ends in a separator
                let stored = match op {
                    Op::AddDir { .. } if !(name.ends_with('/') || name.ends_with('\\')) => name.len() + 1,
                    _ => name.len(),
                };
                if stored > 65535 {
                    return if self.cfg.enforce_unrepresentable { MustErr } else { Either };
                }
                MustOk
            }
            Op::Write { c, .. } => match self.st {
                St::Idle | St::Closed => MustErr,
                St::InFile => {
                    // more than 0xFFFFFFFF bytes in an entry not declared large must be refused
                    let e = self.entries.last();
                    let total = e.map(|e| e.len()).unwrap_or(0).saturating_add(c.len());
                    if total > 0xFFFF_FFFF && !e.map(|e| e.large).unwrap_or(false) {
                        MustErr
                    } else {
                        MustOk
                    }
                }
                St::InExtra { .. } => MustOk,
                St::AfterRaw => Either,
                _ => Either,
            },
            Op::EndExtra | Op::EndLocal => match self.st {
                St::InExtra { .. } => {
                    // (the deferred compressor switch happens when the local part ends: part of pending_ok)
                    if self.pending_ok() {
                        MustOk
                    } else {
                        MustErr
                    }
                }
                _ => MustErr,
            },
            Op::SetComment { .. } => MustOk,
            Op::Many { .. } => {
                if closed || !self.pending_ok() {
                    MustErr
                } else {
                    MustOk
                }
            }
            Op::RawCopy { rename, .. } => {
                if closed || !self.pending_ok() {
                    MustErr
                } else if rename.as_ref().map(|n| n.len() > 65535).unwrap_or(false) {
                    // the new name does not fit the 16-bit length field
                    if self.cfg.enforce_unrepresentable { MustErr } else { Either }
                } else {
                    MustOk
                }
            }
            Op::Flush => {
                if closed {
                    MustErr
                } else {
                    MustOk
                }
            }
            Op::Finish => {
                if closed || !self.pending_ok() {
                    MustErr
                } else if self.comment.len() > 65535 {
                    if self.cfg.enforce_unrepresentable {
                        MustErr
                    } else {
                        Either
                    }
                } else {
                    MustOk
                }
            }
            Op::Append => Either,
        }
    }

    fn new_entry(&self, name: String, kind: MKind, o: &Opts) -> MEntry {
        let (dflt, ty) = match kind {
            MKind::Dir => (0o755, 0o40000),
            MKind::Symlink => (0o777, 0o120000),
            _ => (0o644, 0o100000),
        };
        MEntry {
            name,
            kind,
            method: if matches!(kind, MKind::Dir | MKind::Symlink) { 0 } else { o.method },
            dos: o.words(),
            mode: Some((o.perm.map(|p| p & 0o777).unwrap_or(dflt)) | ty),
            mode_perm_only: false,
            large: o.large,
            password: o.password.as_ref().map(|h| h.0.clone()),
            pieces: vec![],
            extra_local: vec![],
            extra_central: vec![],
            has_extra: false,
            align: None,
            raw: None,
            junk_after: 0,
            ret: 0,
            ret_data_start: None,
            opts_ok: matches!(kind, MKind::Dir | MKind::Symlink) || self.opts_supported(o),
            base_mode: None,
            base_encrypted: false,
        }
    }

    /// Apply one executed step. `src` resolves raw-copy sources. Returns a mismatch if the actual
    /// result contradicts the model's expectation.
    pub fn step(&mut self, op: &Op, step: &Step, src: &dyn Fn(usize, usize, u8) -> Option<SrcEntry>) -> Result<(), Mismatch> {
        let st_before = self.st;
        let n_before = self.entries.len();
        let was_lenient = self.lenient;
        let r = self.step_inner(op, step, src);
        if self.lenient && !was_lenient {
            let open_last = matches!(st_before, St::InFile | St::InExtra { .. });
            self.frozen = Some(n_before.saturating_sub(open_last as usize));
        }
        r
    }

    fn step_inner(&mut self, op: &Op, step: &Step, src: &dyn Fn(usize, usize, u8) -> Option<SrcEntry>) -> Result<(), Mismatch> {
        // harness-level failures (source archive did not open) do not touch the writer
        if let Res::Err(e) = &step.res {
            if e.starts_with("Source/") || e == "NoWriter" {
                return Ok(());
            }
        }
        let exp = self.expect(op);
        self.reached.push((st_code(self.st), op.kind()));
        let ok = step.res.is_ok();
        match (exp, ok) {
            (Expect::MustOk, false) => {
                return Err(mm("model/expected-ok-got-err", format!("{} in state {:?} returned {:?}", op.kind(), self.st, step.res)));
            }
            (Expect::MustErr, true) => {
                return Err(mm("model/expected-err-got-ok", format!("{} in state {:?} returned {:?}", op.kind(), self.st, step.res)));
            }
            _ => {}
        }
        let val = match step.res {
            Res::Ok(v) => v,
            _ => 0,
        };
        // what a failure of a state-changing call does to the writer (known failure modes; anything
        // else is Unknown): decided before the state is touched
        let fail_to = if !self.pending_ok() {
            St::Stuck
        } else {
            match op {
                Op::StartFile { o, .. } | Op::StartAligned { o, .. } if !self.opts_supported(o) => St::Dead,
                Op::EndExtra | Op::EndLocal if matches!(self.st, St::InExtra { central_only: false }) && !self.entries.last().map(|e| e.opts_ok).unwrap_or(true) => St::Dead,
                _ => St::Unknown,
            }
        };
        if matches!(self.st, St::Stuck | St::Dead) {
            match op {
                Op::SetComment { .. } | Op::Append => {}
                Op::Write { .. } | Op::Flush if self.st == St::Stuck => {
                    return Ok(()); // bytes keep going into the rejected extra buffer
                }
                _ => {
                    if ok {
                        // the writer recovered in a way the model does not describe
                        self.st = St::Unknown;
                        self.lenient = true;
                    } else {
                        return Ok(());
                    }
                }
            }
        }
        // refusals decided before the writer touches anything - a name that does not fit the 16-bit length field
        // (checked first in start_entry) and an over-long comment (checked first in finish): the writer is what it
        // was, and the model stays as strict as it was
        let pure_guard = !ok
            && !matches!(self.st, St::Closed | St::Unknown | St::Stuck | St::Dead)
            && match op {
                Op::StartFile { name, .. } | Op::StartExtra { name, .. } | Op::StartAligned { name, .. } | Op::AddSymlink { name, .. } => name.len() > 65535,
                Op::AddDir { name, .. } => name.len() + if name.ends_with('/') || name.ends_with('\\') { 0 } else { 1 } > 65535,
                Op::RawCopy { rename: Some(n), .. } => n.len() > 65535,
                Op::Finish => self.comment.len() > 65535,
                _ => false,
            };
        if pure_guard {
            return Ok(());
        }
        match op {
            Op::SetComment { c } => {
                if self.st != St::Closed {
                    self.comment = c.0.clone();
                }
            }
            Op::Flush => {}
            Op::Write { c, .. } => match self.st {
                St::InFile => {
                    if step.accepted > 0 {
                        if let Some(e) = self.entries.last_mut() {
                            e.pieces.push((c.clone(), step.accepted));
                        }
                    }
                    if !ok {
                        self.st = St::Unknown;
                        self.lenient = true;
                    }
                }
                St::InExtra { .. } => {
                    let b = c.bytes();
                    self.buf.extend_from_slice(&b[..step.accepted as usize]);
                    if !ok {
                        self.st = St::Unknown;
                        self.lenient = true;
                    }
                }
                St::AfterRaw => {
                    if let Some(e) = self.entries.last_mut() {
                        e.junk_after += step.accepted;
                    }
                    if step.accepted > 0 {
                        self.had_write_after_raw = true;
                    }
                }
                St::Unknown => {
                    if let Some(e) = self.entries.last_mut() {
                        if step.accepted > 0 && e.kind == MKind::File {
                            e.pieces.push((c.clone(), step.accepted));
                        }
                    }
                }
                _ => {}
            },
            Op::StartFile { name, o } | Op::StartExtra { name, o } | Op::StartAligned { name, o, .. } => {
                if ok {
                    if self.st != St::Unknown {
                        self.commit_pending();
                    }
                    let mut e = self.new_entry(name.clone(), MKind::File, o);
                    e.ret = val;
                    match op {
                        Op::StartExtra { .. } => {
                            e.has_extra = true;
                            self.buf.clear();
                            self.entries.push(e);
                            if self.st != St::Unknown {
                                self.st = St::InExtra { central_only: false };
                            }
                        }
                        Op::StartAligned { align, .. } => {
                            e.align = Some(*align);
                            self.entries.push(e);
                            if self.st != St::Unknown {
                                self.st = St::InFile;
                            }
                        }
                        _ => {
                            self.entries.push(e);
                            if self.st != St::Unknown {
                                self.st = St::InFile;
                            }
                        }
                    }
                } else if self.st != St::Closed {
                    self.st = fail_to;
                    self.lenient = true;
                }
            }
            Op::Many { n, prefix } => {
                if self.st != St::Unknown {
                    self.commit_pending();
                }
                let made = if ok { *n as u64 } else { step.accepted };
                let o = Opts::default();
                for i in 0..made {
                    let e = self.new_entry(format!("{prefix}{i}"), MKind::File, &o);
                    self.entries.push(e);
                }
                if ok {
                    if self.st != St::Unknown && made > 0 {
                        self.st = St::InFile;
                    }
                } else if self.st != St::Closed {
                    self.st = fail_to;
                    self.lenient = true;
                }
            }
            Op::AddDir { name, o } => {
                if ok {
                    if self.st != St::Unknown {
                        self.commit_pending();
                    }
                    let n = if name.ends_with('/') || name.ends_with('\\') { name.clone() } else { format!("{name}/") };
                    let e = self.new_entry(n, MKind::Dir, o);
                    self.entries.push(e);
                    if self.st != St::Unknown {
                        self.st = St::Idle;
                    }
                } else if self.st != St::Closed {
                    self.st = fail_to;
                    self.lenient = true;
                }
            }
            Op::AddSymlink { name, target, o } => {
                if ok {
                    if self.st != St::Unknown {
                        self.commit_pending();
                    }
                    let mut e = self.new_entry(name.clone(), MKind::Symlink, o);
                    e.pieces.push((Content::Lit(crate::content::Hex(target.as_bytes().to_vec())), target.len() as u64));
                    self.entries.push(e);
                    if self.st != St::Unknown {
                        self.st = St::Idle;
                    }
                } else if self.st != St::Closed {
                    self.st = fail_to;
                    self.lenient = true;
                }
            }
            Op::RawCopy { src: si, index, rename, how } => {
                if ok {
                    if self.st != St::Unknown {
                        self.commit_pending();
                    }
                    if let Some(s) = src(*si, *index, *how) {
                        let e = MEntry {
                            name: rename.clone().unwrap_or_else(|| s.name.clone()),
                            kind: MKind::Raw,
                            method: s.method,
                            dos: s.dos,
                            mode: s.mode,
                            mode_perm_only: true,
                            large: false,
                            password: None,
                            pieces: vec![],
                            extra_local: vec![],
                            extra_central: vec![],
                            has_extra: false,
                            align: None,
                            raw: Some(RawExpect { raw: s.raw.clone(), crc: s.crc, usize: s.usize, csize: s.csize, method: s.method, plain: s.plain.clone() }),
                            junk_after: 0,
                            ret: 0,
                            ret_data_start: None,
                            opts_ok: true,
                            base_mode: None,
                            base_encrypted: false,
                        };
                        self.entries.push(e);
                    }
                    if self.st != St::Unknown {
                        self.st = St::AfterRaw;
                    }
                } else if self.st != St::Closed {
                    self.st = fail_to;
                    self.lenient = true;
                }
            }
            Op::EndExtra => {
                if let St::InExtra { .. } = self.st {
                    if ok {
                        self.commit_pending();
                        if let Some(e) = self.entries.last_mut() {
                            e.ret_data_start = Some(val);
                        }
                        self.st = St::InFile;
                    } else {
                        self.st = fail_to;
                        self.lenient = true;
                    }
                }
            }
            Op::EndLocal => {
                if let St::InExtra { .. } = self.st {
                    if ok {
                        if let St::InExtra { central_only: false } = self.st {
                            let buf = std::mem::take(&mut self.buf);
                            if let Some(e) = self.entries.last_mut() {
                                e.extra_local = buf;
                                e.ret_data_start = Some(val);
                            }
                        }
                        self.buf.clear();
                        self.st = St::InExtra { central_only: true };
                    } else {
                        self.st = fail_to;
                        self.lenient = true;
                    }
                }
            }
            Op::Finish => {
                if ok {
                    if self.st != St::Unknown {
                        self.commit_pending();
                    }
                    self.st = St::Closed;
                    self.complete = true;
                    self.finish_ok = true;
                } else if self.st != St::Closed {
                    self.st = fail_to;
                    self.lenient = true;
                    self.complete = false;
                }
            }
            Op::Append => {
                // the previous writer was dropped (finalised like finish if it was in a clean state)
                self.end_of_life();
                if !self.complete || self.lenient {
                    // the durable image is not one the model can describe: nothing is asserted from here on
                    self.chaos = true;
                }
                self.buf.clear();
                self.finish_ok = false;
                self.lenient = false;
                self.frozen = None;
                self.appended = true;
                // entries of earlier lifetimes are re-emitted from the parsed directory: the extra-data
                // placement oracle (C17) speaks of freshly written entries only
                for e in self.entries.iter_mut() {
                    e.has_extra = false;
                }
                if ok {
                    self.st = St::Idle;
                    self.complete = false;
                } else {
                    self.st = St::Closed;
                }
            }
        }
        Ok(())
    }

    /// The writer is dropped (or an implicit final finish ran): decide whether the archive is
    /// expected to be complete.
    pub fn end_of_life(&mut self) {
        match self.st {
            St::Closed => {}
            St::Unknown | St::Stuck | St::Dead => {
                self.complete = false;
            }
            St::InExtra { .. } => {
                if self.pending_ok() && self.comment.len() <= 65535 {
                    self.commit_pending();
                    self.complete = true;
                } else {
                    self.complete = false;
                }
            }
            _ => {
                self.complete = self.comment.len() <= 65535;
            }
        }
    }
}

/// Run the model over a finished execution.
pub fn run_model(m: &mut Model, ops: &[Op], steps: &[Step], final_res: &Option<Res>, src: &dyn Fn(usize, usize, u8) -> Option<SrcEntry>) -> Result<(), Mismatch> {
    for (op, st) in ops.iter().zip(steps.iter()) {
        m.step(op, st, src)?;
    }
    if let Some(fr) = final_res {
        let st = Step { res: fr.clone(), accepted: 0, interrupted_retries: 0 };
        m.step(&Op::Finish, &st, src)?;
    }
    m.end_of_life();
    Ok(())
}
