//! Writer programs as data, and the interpreter that drives the real `zip::ZipWriter` over a SimDisk.

use crate::content::{Content, Hex};
use crate::rng::Rng;
use crate::simio::{IoH, Shared, SimDisk};
use serde::{Deserialize, Serialize};
use std::io::{Read, Write};
use zip::unstable::write::FileOptionsExt;
use zip::write::FileOptions;
use zip::{CompressionMethod, DateTime, ZipArchive, ZipWriter};

#[derive(Serialize, Deserialize, Clone, Debug, PartialEq)]
pub struct Opts {
    /// ZIP method id: 0 stored, 8 deflate, 12 bzip2, 93 zstd, others unsupported, 99 AES
    pub method: u16,
    pub level: Option<i32>,
    /// (date word, time word) unless `ctor` is set
    pub dos: (u16, u16),
    /// checked constructor arguments (year, month, day, hour, minute, second)
    pub ctor: Option<(u16, u8, u8, u8, u8, u8)>,
    pub perm: Option<u32>,
    pub large: bool,
    pub password: Option<Hex>,
    /// when set, the entry is created through the deprecated path-taking call (`start_file_from_path` /
    /// `add_directory_from_path`) with this path; the op's `name` is what the harness's own reading of
    /// "ordinary components joined by '/'" makes of it (computed when the case is generated)
    #[serde(default)]
    pub via_path: Option<String>,
}

/// the documented meaning of the path-taking calls, written independently: ordinary components, joined by '/'
pub fn path_components_joined(p: &str) -> String {
    p.split('/').filter(|c| !c.is_empty() && *c != "." && *c != "..").collect::<Vec<_>>().join("/")
}

impl Default for Opts {
    fn default() -> Opts {
        Opts { method: 0, level: None, dos: (0x21, 0), ctor: None, perm: None, large: false, password: None, via_path: None }
    }
}

impl Opts {
    pub fn words(&self) -> (u16, u16) {
        match self.ctor {
            Some((y, mo, d, h, mi, s)) => {
                let date = (d as u16) | ((mo as u16) << 5) | ((y.wrapping_sub(1980)) << 9);
                let time = ((s as u16) >> 1) | ((mi as u16) << 5) | ((h as u16) << 11);
                (date, time)
            }
            None => self.dos,
        }
    }
    pub fn to_file_options(&self) -> FileOptions {
        #[allow(deprecated)]
        let m = CompressionMethod::from_u16(self.method);
        let dt = match self.ctor {
            Some((y, mo, d, h, mi, s)) => DateTime::from_date_and_time(y, mo, d, h, mi, s).unwrap_or_default(),
            None => DateTime::from_msdos(self.dos.0, self.dos.1),
        };
        let mut o = FileOptions::default().compression_method(m).compression_level(self.level).last_modified_time(dt).large_file(self.large);
        if let Some(p) = self.perm {
            o = o.unix_permissions(p);
        }
        if let Some(pw) = &self.password {
            // the setters are a builder: setting a value again replaces the earlier one. One options value in three
            // had another password (and other settings) before it got the ones the entry is written with.
            if crate::rng::fnv(&pw.0) % 3 == 0 {
                o = o.with_deprecated_encryption(b"an earlier password").unix_permissions(0o600).large_file(!self.large).large_file(self.large);
                if let Some(p) = self.perm {
                    o = o.unix_permissions(p);
                } else {
                    o = FileOptions::default().compression_method(m).compression_level(self.level).last_modified_time(dt).large_file(self.large).with_deprecated_encryption(b"an earlier password");
                }
            }
            o = o.with_deprecated_encryption(&pw.0);
        }
        o
    }
}

#[derive(Serialize, Deserialize, Clone, Debug, PartialEq)]
pub enum Op {
    StartFile { name: String, o: Opts },
    StartAligned { name: String, o: Opts, align: u16 },
    StartExtra { name: String, o: Opts },
    /// caller-side write calls: pieces of the given sizes, remainder in one call
    Write { c: Content, split: Vec<u32> },
    EndLocal,
    EndExtra,
    AddDir { name: String, o: Opts },
    AddSymlink { name: String, target: String, o: Opts },
    SetComment { c: Hex },
    /// how: 0 by_index, 1 by_name, 2 by_index_raw
    RawCopy { src: usize, how: u8, index: usize, rename: Option<String> },
    Flush,
    Finish,
    /// "process restart": drop every handle, reopen the durable image with new_append
    Append,
    /// n empty Stored entries named {prefix}{i} (entry-count thresholds without megabytes of JSON)
    Many { n: u32, prefix: String },
}

impl Op {
    pub fn kind(&self) -> &'static str {
        match self {
            Op::StartFile { .. } => "StartFile",
            Op::StartAligned { .. } => "StartAligned",
            Op::StartExtra { .. } => "StartExtra",
            Op::Write { .. } => "Write",
            Op::EndLocal => "EndLocal",
            Op::EndExtra => "EndExtra",
            Op::AddDir { .. } => "AddDir",
            Op::AddSymlink { .. } => "AddSymlink",
            Op::SetComment { .. } => "SetComment",
            Op::RawCopy { .. } => "RawCopy",
            Op::Flush => "Flush",
            Op::Finish => "Finish",
            Op::Append => "Append",
            Op::Many { .. } => "Many",
        }
    }
}

#[derive(Clone, Debug, PartialEq, Serialize, Deserialize)]
pub enum Res {
    Ok(u64),
    Err(String),
}
impl Res {
    pub fn is_ok(&self) -> bool {
        matches!(self, Res::Ok(_))
    }
}

#[derive(Clone, Debug, Serialize, Deserialize)]
pub struct Step {
    pub res: Res,
    /// for Write: bytes for which `write` returned Ok(n)
    pub accepted: u64,
    /// sink position after the step (u64::MAX if unknown)
    pub interrupted_retries: u32,
}

fn zerr(e: &zip::result::ZipError) -> String {
    use zip::result::ZipError::*;
    match e {
        Io(e) => format!("Io/{:?}/{}", e.kind(), e),
        InvalidArchive(m) => format!("InvalidArchive/{m}"),
        UnsupportedArchive(m) => format!("UnsupportedArchive/{m}"),
        FileNotFound => "FileNotFound".into(),
    }
}
pub fn ioerr(e: &std::io::Error) -> String {
    format!("Io/{:?}/{}", e.kind(), e)
}
pub fn zerr_pub(e: &zip::result::ZipError) -> String {
    zerr(e)
}

pub struct ExecEnv {
    pub store: Shared,
    pub start_pos: u64,
    pub sink_io: IoH,
    pub sources: Vec<Shared>,
    pub src_io: IoH,
    /// stop executing ops after the first Err (false = keep going: later calls are part of the property)
    pub stop_on_err: bool,
    /// end with mem::forget instead of Drop? never; Drop is always executed
    pub final_finish: bool,
    /// the store already holds a durable image: no initial writer lifetime (the first op is Append)
    pub pre_started: bool,
}

pub struct ExecOut {
    pub steps: Vec<Step>,
    /// result of the implicit final finish (if `final_finish` and writer not yet finished)
    pub final_res: Option<Res>,
    /// sink position right after the last successful finish()
    pub end_pos: Option<u64>,
    /// one record per writer lifetime that ended: (opened by Append, sink position when it ended, image length then)
    pub lives: Vec<(bool, u64, u64)>,
}

/// write `data` with write_all semantics, piece by piece, counting what the writer accepted
fn do_write<W: Write>(w: &mut W, data: &[u8], accepted: &mut u64, retries: &mut u32) -> Result<(), std::io::Error> {
    let mut off = 0usize;
    // the provided `write_vectored` is a way of writing too (a type may override it): used for some pieces,
    // keyed on the piece itself so that the choice replays
    let vectored = data.len() % 5 == 3;
    while off < data.len() {
        let rest = &data[off..];
        let r = if vectored && rest.len() >= 2 {
            let (a, b) = rest.split_at(rest.len() / 3 + 1);
            w.write_vectored(&[std::io::IoSlice::new(a), std::io::IoSlice::new(&[]), std::io::IoSlice::new(b)])
        } else {
            w.write(rest)
        };
        match r {
            Ok(0) => return Err(std::io::Error::new(std::io::ErrorKind::WriteZero, "failed to write whole buffer")),
            Ok(n) => {
                off += n;
                *accepted += n as u64;
            }
            Err(e) if e.kind() == std::io::ErrorKind::Interrupted => {
                *retries += 1;
                if *retries > 10_000 {
                    return Err(e);
                }
            }
            Err(e) => return Err(e),
        }
    }
    Ok(())
}

pub fn run_program(ops: &[Op], env: &ExecEnv) -> ExecOut {
    let mut steps: Vec<Step> = Vec::with_capacity(ops.len());
    let mk_sink = || SimDisk::with_io(env.store.clone(), env.sink_io.clone());
    let mut w: Option<ZipWriter<SimDisk>> = None;
    let mut started = env.pre_started;
    let mut finished = env.pre_started;
    let mut end_pos: Option<u64> = None;
    let mut lives: Vec<(bool, u64, u64)> = vec![];
    let mut life_appended = false;
    let mut life_alive = false;
    for op in ops {
        if !started {
            // the first writer lifetime always exists (an Append as first op reopens an empty archive)
            w = Some(ZipWriter::new(mk_sink().at(env.start_pos)));
            started = true;
            life_alive = true;
        }
        let mut accepted = 0u64;
        let mut retries = 0u32;
        let res: Res = match op {
            Op::Append => {
                started = true;
                finished = false;
                drop(w.take());
                if life_alive {
                    lives.push((life_appended, crate::simio::last_pos(&env.sink_io), crate::simio::len_of(&env.store)));
                }
                life_alive = false;
                match ZipWriter::new_append(mk_sink()) {
                    Ok(nw) => {
                        w = Some(nw);
                        life_alive = true;
                        life_appended = true;
                        Res::Ok(0)
                    }
                    Err(e) => Res::Err(zerr(&e)),
                }
            }
            _ if w.is_none() => Res::Err("NoWriter".into()),
            Op::StartFile { name, o } => match {
                let wr = w.as_mut().unwrap();
                match &o.via_path {
                    #[allow(deprecated)]
                    Some(p) => wr.start_file_from_path(std::path::Path::new(p), o.to_file_options()),
                    None => wr.start_file(name.clone(), o.to_file_options()),
                }
            } {
                Ok(()) => Res::Ok(0),
                Err(e) => Res::Err(zerr(&e)),
            },
            Op::StartAligned { name, o, align } => match w.as_mut().unwrap().start_file_aligned(name.clone(), o.to_file_options(), *align) {
                Ok(n) => Res::Ok(n),
                Err(e) => Res::Err(zerr(&e)),
            },
            Op::StartExtra { name, o } => match w.as_mut().unwrap().start_file_with_extra_data(name.clone(), o.to_file_options()) {
                Ok(n) => Res::Ok(n),
                Err(e) => Res::Err(zerr(&e)),
            },
            Op::Write { c, split } => {
                let wr = w.as_mut().unwrap();
                let mut r: Result<(), std::io::Error> = Ok(());
                if c.is_sparse() {
                    let total = c.len();
                    let mut off = 0u64;
                    let mut buf = vec![0u8; 1 << 20];
                    let mut si = 0usize;
                    while off < total && r.is_ok() {
                        let want = if si < split.len() { (split[si] as u64).max(1) } else { buf.len() as u64 };
                        si += 1;
                        let n = want.min(total - off).min(buf.len() as u64) as usize;
                        c.fill(off, &mut buf[..n]);
                        r = do_write(wr, &buf[..n], &mut accepted, &mut retries);
                        off += n as u64;
                    }
                } else {
                    let data = c.bytes();
                    let mut off = 0usize;
                    for s in split {
                        if off >= data.len() || r.is_err() {
                            break;
                        }
                        let n = (*s as usize).min(data.len() - off);
                        if n == 0 {
                            // a zero-length write call
                            match wr.write(&[]) {
                                Ok(_) => {}
                                Err(e) => r = Err(e),
                            }
                            continue;
                        }
                        r = do_write(wr, &data[off..off + n], &mut accepted, &mut retries);
                        off += n;
                    }
                    if r.is_ok() && (off < data.len() || data.is_empty()) {
                        if data.is_empty() {
                            if let Err(e) = wr.write(&[]) {
                                r = Err(e);
                            }
                        } else {
                            r = do_write(wr, &data[off..], &mut accepted, &mut retries);
                        }
                    }
                }
                match r {
                    Ok(()) => Res::Ok(accepted),
                    Err(e) => Res::Err(ioerr(&e)),
                }
            }
            Op::EndLocal => match w.as_mut().unwrap().end_local_start_central_extra_data() {
                Ok(n) => Res::Ok(n),
                Err(e) => Res::Err(zerr(&e)),
            },
            Op::EndExtra => match w.as_mut().unwrap().end_extra_data() {
                Ok(n) => Res::Ok(n),
                Err(e) => Res::Err(zerr(&e)),
            },
            Op::AddDir { name, o } => match {
                let wr = w.as_mut().unwrap();
                match &o.via_path {
                    #[allow(deprecated)]
                    Some(p) => wr.add_directory_from_path(std::path::Path::new(p), o.to_file_options()),
                    None => wr.add_directory(name.clone(), o.to_file_options()),
                }
            } {
                Ok(()) => Res::Ok(0),
                Err(e) => Res::Err(zerr(&e)),
            },
            Op::AddSymlink { name, target, o } => match w.as_mut().unwrap().add_symlink(name.clone(), target.clone(), o.to_file_options()) {
                Ok(()) => Res::Ok(0),
                Err(e) => Res::Err(zerr(&e)),
            },
            Op::SetComment { c } => {
                // both spellings of the call: the String-taking one for comments that are UTF-8 (keyed on the
                // comment itself so that the choice replays)
                match std::str::from_utf8(&c.0) {
                    Ok(s) if c.0.len() % 2 == 0 => w.as_mut().unwrap().set_comment(s),
                    _ => w.as_mut().unwrap().set_raw_comment(c.0.clone()),
                }
                Res::Ok(0)
            }
            Op::RawCopy { src, how, index, rename } => {
                let r = (|| -> Result<(), String> {
                    let st = env.sources.get(*src).ok_or_else(|| "Source/missing".to_string())?;
                    let mut ar = ZipArchive::new(SimDisk::with_io(st.clone(), env.src_io.clone())).map_err(|e| format!("Source/{}", zerr(&e)))?;
                    let name_for_lookup: Option<String> = if *how == 1 {
                        let f = ar.by_index_raw(*index).map_err(|e| format!("Source/{}", zerr(&e)))?;
                        Some(f.name().to_string())
                    } else {
                        None
                    };
                    let file = match *how {
                        0 => ar.by_index(*index),
                        1 => ar.by_name(name_for_lookup.as_deref().unwrap_or("")),
                        _ => ar.by_index_raw(*index),
                    }
                    .map_err(|e| format!("Source/{}", zerr(&e)))?;
                    let wr = w.as_mut().unwrap();
                    match rename {
                        Some(n) => wr.raw_copy_file_rename(file, n.clone()),
                        None => wr.raw_copy_file(file),
                    }
                    .map_err(|e| zerr(&e))
                })();
                match r {
                    Ok(()) => Res::Ok(0),
                    Err(e) => Res::Err(e),
                }
            }
            Op::Many { n, prefix } => {
                let wr = w.as_mut().unwrap();
                let o = Opts::default().to_file_options();
                let mut r = Res::Ok(0);
                for i in 0..*n {
                    if let Err(e) = wr.start_file(format!("{prefix}{i}"), o) {
                        r = Res::Err(zerr(&e));
                        break;
                    }
                    accepted += 1;
                }
                r
            }
            Op::Flush => match w.as_mut().unwrap().flush() {
                Ok(()) => Res::Ok(0),
                Err(e) => Res::Err(ioerr(&e)),
            },
            Op::Finish => match w.as_mut().unwrap().finish() {
                Ok(sink) => {
                    end_pos = Some(sink.pos);
                    drop(sink);
                    finished = true;
                    Res::Ok(0)
                }
                Err(e) => Res::Err(zerr(&e)),
            },
        };
        let failed = !res.is_ok();
        steps.push(Step { res, accepted, interrupted_retries: retries });
        if failed && env.stop_on_err {
            break;
        }
    }
    if !started {
        w = Some(ZipWriter::new(mk_sink().at(env.start_pos)));
    }
    let mut final_res = None;
    if env.final_finish && !finished {
        if let Some(wr) = w.as_mut() {
            final_res = Some(match wr.finish() {
                Ok(s) => {
                    end_pos = Some(s.pos);
                    drop(s);
                    Res::Ok(0)
                }
                Err(e) => Res::Err(zerr(&e)),
            });
        }
    }
    drop(w); // Drop is always part of the program
    if life_alive || !started {
        lives.push((life_appended, crate::simio::last_pos(&env.sink_io), crate::simio::len_of(&env.store)));
    }
    ExecOut { steps, final_res, end_pos, lives }
}

thread_local! {
    /// set by `read_all` when it stopped reading before end-of-file or an error (byte cap reached, or no
    /// progress for a million calls): the read did NOT complete, and no oracle may treat it as completed
    pub static READ_GAVE_UP: std::cell::Cell<bool> = std::cell::Cell::new(false);
}

pub fn read_gave_up() -> bool {
    READ_GAVE_UP.with(|c| c.get())
}

/// read an entire ZipFile with the given caller buffer sizes (cycled); returns bytes and the first error.
/// `(bytes, None, _)` means end-of-file was reached unless `read_gave_up()` says otherwise.
pub fn read_all<R: Read>(f: &mut R, bufs: &[u32], cap: u64) -> (Vec<u8>, Option<std::io::Error>, u64) {
    READ_GAVE_UP.with(|c| c.set(false));
    let gave_up = || READ_GAVE_UP.with(|c| c.set(true));
    let mut out = Vec::new();
    let mut i = 0usize;
    let mut calls = 0u64;
    let mut idle = 0u64; // consecutive calls without progress
    let mut scratch = vec![0u8; 1 << 16];
    let mut zero_run = 0usize;
    loop {
        let mut n = if bufs.is_empty() { 8192 } else { bufs[i % bufs.len()] as usize };
        i += 1;
        if n == 0 {
            zero_run += 1;
            if zero_run > bufs.len() {
                n = 1; // a schedule of only zero-length buffers would never make progress
            }
        } else {
            zero_run = 0;
        }
        if scratch.len() < n {
            scratch.resize(n, 0);
        }
        calls += 1;
        match f.read(&mut scratch[..n]) {
            Ok(0) if n > 0 => return (out, None, calls),
            Ok(0) => {
                idle += 1;
                if idle > 1_000_000 {
                    gave_up();
                    return (out, None, calls);
                }
            }
            Ok(k) => {
                idle = 0;
                out.extend_from_slice(&scratch[..k]);
                if out.len() as u64 > cap {
                    gave_up();
                    return (out, None, calls);
                }
            }
            Err(e) if e.kind() == std::io::ErrorKind::Interrupted => {
                idle += 1;
                if idle > 1_000_000 {
                    gave_up();
                    return (out, Some(e), calls);
                }
            }
            Err(e) => return (out, Some(e), calls),
        }
    }
}

// ---------------------------------------------------------------------------------------------
// generators shared by scenarios

pub const METHODS: [u16; 4] = [0, 8, 12, 93];

pub fn gen_name(r: &mut Rng, used: &[String], long_ok: bool) -> String {
    let shape = r.below(20);
    let base: String = match shape {
        0 => String::new(),
        1 if !used.is_empty() => r.pick(used).clone(),
        2 => format!("dir/{}", gen_word(r)),
        3 => format!("{}.txt", gen_word(r)),
        4 => format!("é{}日本", gen_word(r)),
        5 => format!("a\0{}", gen_word(r)),
        6 => format!("back\\{}", gen_word(r)),
        7 => format!("../{}", gen_word(r)),
        8 => format!("/abs/{}", gen_word(r)),
        9 => format!("{}😀", gen_word(r)),
        10 | 15 if long_ok => {
            let n = r.pickc(&[255usize, 256, 1000, 65535, 65534, 40000]);
            let mut s = String::with_capacity(n);
            let w = gen_word(r);
            while s.len() < n {
                s.push_str(&w);
                s.push('x');
            }
            s.truncate(n);
            s
        }
        11 => format!("{}/", gen_word(r)),
        12 => " ".to_string(),
        13 => ".".to_string(),
        _ => gen_word(r),
    };
    base
}

pub fn gen_word(r: &mut Rng) -> String {
    const W: &[&str] = &["a", "b", "foo", "bar", "data", "x1", "README", "src", "lib", "z"];
    let mut s = r.pick(W).to_string();
    if r.chance(1, 2) {
        s.push_str(&r.below(100).to_string());
    }
    s
}

pub fn gen_level(r: &mut Rng, method: u16) -> Option<i32> {
    if r.chance(2, 5) {
        return None;
    }
    match method {
        8 => Some(r.irange(0, 9) as i32),
        12 => Some(r.irange(1, 9) as i32), // documented range after fix D10 is 1..=9; level 0 is drawn by C12
        // levels above 12 allocate and clear hundreds of MiB of tables per entry: drawn, but rarely
        93 => Some(if r.chance(1, 60) { r.irange(13, 22) as i32 } else { r.irange(-7, 12) as i32 }),
        _ => None,
    }
}

pub fn gen_opts(r: &mut Rng, methods: &[u16]) -> Opts {
    let method = r.pickc(methods);
    let ctor = if r.chance(1, 3) {
        Some((r.range(1980, 2107) as u16, r.range(1, 12) as u8, r.range(1, 31) as u8, r.range(0, 23) as u8, r.range(0, 59) as u8, r.range(0, 60) as u8))
    } else {
        None
    };
    Opts {
        method,
        level: gen_level(r, method),
        dos: (r.below(65536) as u16, r.below(65536) as u16),
        ctor,
        perm: if r.chance(1, 2) { Some(if r.chance(1, 8) { r.below(1 << 18) as u32 } else { r.below(512) as u32 }) } else { None },
        large: r.chance(1, 6),
        password: None,
        via_path: None,
    }
}

pub fn gen_split(r: &mut Rng, len: u64) -> Vec<u32> {
    match r.below(6) {
        0 | 1 => vec![],
        2 => vec![1; (len.min(40)) as usize],
        3 => (0..r.below(6)).map(|_| r.below(len.max(1) + 1) as u32).collect(),
        4 => vec![0, r.below(8) as u32, 0],
        _ => (0..r.below(4)).map(|_| r.pickc(&[1u32, 2, 3, 7, 16, 17, 4096])).collect(),
    }
}

/// shrinking helpers for programs
pub fn shrink_ops(ops: &[Op]) -> Vec<Vec<Op>> {
    let mut out: Vec<Vec<Op>> = vec![];
    let n = ops.len();
    // drop halves, then single ops
    if n > 3 {
        out.push(ops[..n / 2].to_vec());
        out.push(ops[n / 2..].to_vec());
    }
    for i in (0..n).rev() {
        let mut v = ops.to_vec();
        v.remove(i);
        out.push(v);
    }
    // simplify single ops
    for i in 0..n {
        for alt in shrink_op(&ops[i]) {
            let mut v = ops.to_vec();
            v[i] = alt;
            out.push(v);
        }
    }
    out
}

fn shrink_name(n: &str) -> Vec<String> {
    let mut v = vec![];
    if n != "a" {
        v.push("a".to_string());
    }
    if n.len() > 8 {
        let mut k = n.len() / 2;
        while !n.is_char_boundary(k) {
            k -= 1;
        }
        v.push(n[..k].to_string());
    }
    v
}

fn shrink_opts(o: &Opts) -> Vec<Opts> {
    let mut v = vec![];
    let d = Opts::default();
    if *o != d {
        v.push(Opts { password: o.password.clone(), ..d.clone() });
    }
    if o.method != 0 {
        v.push(Opts { method: 0, level: None, ..o.clone() });
    }
    if o.level.is_some() {
        v.push(Opts { level: None, ..o.clone() });
    }
    if o.ctor.is_some() || o.dos != d.dos {
        v.push(Opts { ctor: None, dos: d.dos, ..o.clone() });
    }
    if o.perm.is_some() {
        v.push(Opts { perm: None, ..o.clone() });
    }
    if o.large {
        v.push(Opts { large: false, ..o.clone() });
    }
    if o.password.is_some() {
        v.push(Opts { password: None, ..o.clone() });
    }
    v
}

fn shrink_op(op: &Op) -> Vec<Op> {
    let mut v = vec![];
    match op {
        Op::StartFile { name, o } => {
            for n in shrink_name(name) {
                v.push(Op::StartFile { name: n, o: o.clone() });
            }
            for o2 in shrink_opts(o) {
                v.push(Op::StartFile { name: name.clone(), o: o2 });
            }
        }
        Op::StartAligned { name, o, align } => {
            v.push(Op::StartFile { name: name.clone(), o: o.clone() });
            for n in shrink_name(name) {
                v.push(Op::StartAligned { name: n, o: o.clone(), align: *align });
            }
            for o2 in shrink_opts(o) {
                v.push(Op::StartAligned { name: name.clone(), o: o2, align: *align });
            }
            for a in [2u16, 4, 64, align / 2] {
                if a != *align {
                    v.push(Op::StartAligned { name: name.clone(), o: o.clone(), align: a });
                }
            }
        }
        Op::StartExtra { name, o } => {
            for n in shrink_name(name) {
                v.push(Op::StartExtra { name: n, o: o.clone() });
            }
            for o2 in shrink_opts(o) {
                v.push(Op::StartExtra { name: name.clone(), o: o2 });
            }
        }
        Op::Write { c, split } => {
            if !split.is_empty() {
                v.push(Op::Write { c: c.clone(), split: vec![] });
            }
            for c2 in c.shrinks() {
                v.push(Op::Write { c: c2, split: split.clone() });
            }
        }
        Op::AddDir { name, o } => {
            for n in shrink_name(name) {
                v.push(Op::AddDir { name: n, o: o.clone() });
            }
            for o2 in shrink_opts(o) {
                v.push(Op::AddDir { name: name.clone(), o: o2 });
            }
        }
        Op::AddSymlink { name, target, o } => {
            for n in shrink_name(name) {
                v.push(Op::AddSymlink { name: n, target: target.clone(), o: o.clone() });
            }
            for n in shrink_name(target) {
                v.push(Op::AddSymlink { name: name.clone(), target: n, o: o.clone() });
            }
            for o2 in shrink_opts(o) {
                v.push(Op::AddSymlink { name: name.clone(), target: target.clone(), o: o2 });
            }
        }
        Op::SetComment { c } => {
            if !c.0.is_empty() {
                v.push(Op::SetComment { c: Hex(vec![]) });
                v.push(Op::SetComment { c: Hex(c.0[..c.0.len() / 2].to_vec()) });
            }
        }
        Op::Many { n, prefix } => {
            if *n > 1 {
                v.push(Op::Many { n: n / 2, prefix: prefix.clone() });
                v.push(Op::Many { n: n - 1, prefix: prefix.clone() });
            }
        }
        Op::RawCopy { src, how, index, rename } => {
            if rename.is_some() {
                v.push(Op::RawCopy { src: *src, how: *how, index: *index, rename: None });
            }
            if *how != 0 {
                v.push(Op::RawCopy { src: *src, how: 0, index: *index, rename: rename.clone() });
            }
            if *index != 0 {
                v.push(Op::RawCopy { src: *src, how: *how, index: 0, rename: rename.clone() });
            }
        }
        _ => {}
    }
    v
}
