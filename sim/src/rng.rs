//! Seeded PRNG: SplitMix64 seeding a xoshiro256**. Every choice in a run is drawn from sub-streams
//! derived from one integer, so that one seed is one exactly repeatable execution.

#[derive(Clone, Debug)]
pub struct Rng {
    s: [u64; 4],
}

pub fn splitmix(x: &mut u64) -> u64 {
    *x = x.wrapping_add(0x9E3779B97F4A7C15);
    let mut z = *x;
    z = (z ^ (z >> 30)).wrapping_mul(0xBF58476D1CE4E5B9);
    z = (z ^ (z >> 27)).wrapping_mul(0x94D049BB133111EB);
    z ^ (z >> 31)
}

/// FNV-1a 64 over bytes; used for labels, digests and signatures (never for anything security relevant).
pub fn fnv(bytes: &[u8]) -> u64 {
    let mut h: u64 = 0xcbf29ce484222325;
    for b in bytes {
        h ^= *b as u64;
        h = h.wrapping_mul(0x100000001b3);
    }
    h
}

pub fn fnv_add(h: u64, v: u64) -> u64 {
    let mut h = h;
    for b in v.to_le_bytes() {
        h ^= b as u64;
        h = h.wrapping_mul(0x100000001b3);
    }
    h
}

pub fn mix(a: u64, b: u64) -> u64 {
    let mut x = a ^ b.rotate_left(32) ^ 0xD6E8FEB86659FD93;
    let r = splitmix(&mut x);
    let mut y = r ^ b;
    splitmix(&mut y)
}

impl Rng {
    pub fn new(seed: u64) -> Rng {
        let mut x = seed;
        let s = [splitmix(&mut x), splitmix(&mut x), splitmix(&mut x), splitmix(&mut x)];
        Rng { s }
    }
    /// Independent sub-stream for a label: shrinking one aspect never perturbs another.
    pub fn derive(seed: u64, label: &str) -> Rng {
        Rng::new(mix(seed, fnv(label.as_bytes())))
    }
    pub fn next_u64(&mut self) -> u64 {
        let r = self.s[1].wrapping_mul(5).rotate_left(7).wrapping_mul(9);
        let t = self.s[1] << 17;
        self.s[2] ^= self.s[0];
        self.s[3] ^= self.s[1];
        self.s[1] ^= self.s[2];
        self.s[0] ^= self.s[3];
        self.s[2] ^= t;
        self.s[3] = self.s[3].rotate_left(45);
        r
    }
    /// uniform in 0..n (n > 0)
    pub fn below(&mut self, n: u64) -> u64 {
        if n <= 1 {
            return 0;
        }
        // multiply-shift; bias is irrelevant here
        ((self.next_u64() as u128 * n as u128) >> 64) as u64
    }
    pub fn usize_below(&mut self, n: usize) -> usize {
        self.below(n as u64) as usize
    }
    /// inclusive range
    pub fn range(&mut self, lo: u64, hi: u64) -> u64 {
        if hi <= lo {
            return lo;
        }
        lo + self.below(hi - lo + 1)
    }
    pub fn irange(&mut self, lo: i64, hi: i64) -> i64 {
        lo + self.below((hi - lo + 1) as u64) as i64
    }
    pub fn chance(&mut self, num: u64, den: u64) -> bool {
        self.below(den) < num
    }
    pub fn pick<'a, T>(&mut self, xs: &'a [T]) -> &'a T {
        &xs[self.usize_below(xs.len())]
    }
    pub fn pickc<T: Copy>(&mut self, xs: &[T]) -> T {
        xs[self.usize_below(xs.len())]
    }
    /// weighted pick: items (weight, value)
    pub fn weighted<T: Copy>(&mut self, xs: &[(u64, T)]) -> T {
        let total: u64 = xs.iter().map(|x| x.0).sum();
        let mut r = self.below(total.max(1));
        for (w, v) in xs {
            if r < *w {
                return *v;
            }
            r -= *w;
        }
        xs[xs.len() - 1].1
    }
    pub fn bytes(&mut self, n: usize) -> Vec<u8> {
        let mut v = Vec::with_capacity(n + 8);
        while v.len() < n {
            v.extend_from_slice(&self.next_u64().to_le_bytes());
        }
        v.truncate(n);
        v
    }
    /// n drawn from lo..=hi, then n bytes
    pub fn rbytes(&mut self, lo: u64, hi: u64) -> Vec<u8> {
        let n = self.range(lo, hi) as usize;
        self.bytes(n)
    }
    /// size biased towards small values, with occasional large ones up to `max`
    pub fn size(&mut self, max: u64) -> u64 {
        if max == 0 {
            return 0;
        }
        match self.below(10) {
            0 => 0,
            1..=4 => self.range(0, max.min(16)),
            5..=7 => self.range(0, max.min(300)),
            8 => self.range(0, max.min(5000)),
            _ => self.range(0, max),
        }
    }
}
