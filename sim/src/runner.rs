//! Supervisor / worker execution, violation handling (shrink, replay file), evidence.
//!
//! Runs execute in worker processes because a panic inside ZipWriter is regularly followed by a
//! second panic in its Drop (=> abort), which catch_unwind cannot contain.

use crate::rng::{fnv, mix};
use serde::{Deserialize, Serialize};
use serde_json::{json, Value};
use std::collections::{BTreeMap, BTreeSet, HashSet};
use std::io::{BufRead, BufReader, Read, Write};
use std::process::{Command, Stdio};
use std::sync::mpsc;
use std::time::{Duration, Instant};

#[derive(Clone, Copy, PartialEq, Eq, Debug)]
pub enum Tier {
    Quick,
    Thorough,
}
impl Tier {
    pub fn name(self) -> &'static str {
        match self {
            Tier::Quick => "quick",
            Tier::Thorough => "thorough",
        }
    }
}

#[derive(Clone, Debug, Serialize, Deserialize)]
pub enum Verdict {
    Pass,
    Skip(String),
    Violation { class: String, detail: String },
    /// matches an open entry of known_findings.json (id), decided by the scenario's own predicate
    Known { id: String, detail: String },
    Harness(String),
}

pub fn viol(class: impl Into<String>, detail: impl Into<String>) -> Verdict {
    Verdict::Violation { class: class.into(), detail: detail.into() }
}

/// Per-run context handed to a scenario.
pub struct Ctx {
    pub property: String,
    pub tier: Tier,
    pub probes: BTreeMap<String, u64>,
    pub fired: BTreeMap<String, u64>,
    pub io_events: u64,
    pub digest: u64,
    pub sig: Option<u64>,
    pub open_findings: BTreeSet<String>,
    pub sub_evals: u64,
    /// distinct non-trivial signatures of sub-cases (for scenarios that enumerate inside one run)
    pub sub_sigs: Vec<u64>,
    ticks: u64,
    last_beat: Option<std::time::Instant>,
}
impl Ctx {
    pub fn new(property: &str, tier: Tier, open: &BTreeSet<String>) -> Ctx {
        Ctx {
            property: property.to_string(),
            tier,
            probes: BTreeMap::new(),
            fired: BTreeMap::new(),
            io_events: 0,
            digest: 0,
            sig: None,
            open_findings: open.clone(),
            sub_evals: 0,
            sub_sigs: vec![],
            ticks: 0,
            last_beat: None,
        }
    }
    /// heartbeat for long enumerations inside one run (feeds the supervisor's stall watchdog only;
    /// never influences a decision of the run)
    pub fn tick(&mut self) {
        self.ticks += 1;
        if self.ticks % 256 == 0 {
            let now = std::time::Instant::now();
            if self.last_beat.map(|t| now.duration_since(t).as_secs() >= 5).unwrap_or(true) {
                self.last_beat = Some(now);
                use std::io::Write;
                let so = std::io::stdout();
                let mut l = so.lock();
                let _ = writeln!(l, "T");
                let _ = l.flush();
            }
        }
    }
    pub fn probe(&mut self, name: &str) {
        *self.probes.entry(name.to_string()).or_insert(0) += 1;
    }
    pub fn probe_n(&mut self, name: &str, n: u64) {
        *self.probes.entry(name.to_string()).or_insert(0) += n;
    }
    pub fn absorb(&mut self, io: &crate::simio::IoH) {
        let st = crate::simio::stats(io);
        self.io_events += st.calls;
        self.digest = mix(self.digest, st.digest);
        for (k, v) in st.fired {
            *self.fired.entry(k.to_string()).or_insert(0) += v;
        }
    }
    pub fn is_open(&self, id: &str) -> bool {
        self.open_findings.contains(id)
    }
    /// a violation that matches the predicate of finding `id`: Known if listed open, else Violation
    pub fn known_or_viol(&self, id: &str, class: &str, detail: String) -> Verdict {
        if self.is_open(id) {
            Verdict::Known { id: id.to_string(), detail }
        } else {
            viol(class, detail)
        }
    }
}

pub trait Scenario: Sync {
    fn name(&self) -> &'static str;
    /// number of runs for the tier
    fn total(&self, tier: Tier) -> u64;
    fn gen(&self, seed: u64, idx: u64, tier: Tier) -> Value;
    fn run(&self, case: &Value, ctx: &mut Ctx) -> Verdict;
    fn shrink(&self, _case: &Value) -> Vec<Value> {
        vec![]
    }
    fn rule(&self) -> &'static str;
    /// fault kinds this scenario can inject, for the evidence
    fn exhaustive_note(&self) -> Option<&'static str> {
        None
    }
    /// scenarios that need a differently built binary (shuttle build) name it here
    fn worker_exe(&self) -> Option<String> {
        None
    }
}

// ------------------------------------------------------------------------------------------
// panic capture

thread_local! {
    static LAST_PANIC: std::cell::RefCell<Option<(String, String)>> = std::cell::RefCell::new(None);
}

pub fn install_panic_hook() {
    std::panic::set_hook(Box::new(|info| {
        let loc = info.location().map(|l| l.file().to_string()).unwrap_or_default();
        let msg = if let Some(s) = info.payload().downcast_ref::<&str>() {
            s.to_string()
        } else if let Some(s) = info.payload().downcast_ref::<String>() {
            s.clone()
        } else if info.payload().downcast_ref::<crate::simio::StepBudgetExceeded>().is_some() {
            "STEP-BUDGET".to_string()
        } else {
            "non-string panic".to_string()
        };
        LAST_PANIC.with(|p| {
            let mut p = p.borrow_mut();
            // keep the first panic of a run (later ones are consequences)
            if p.is_none() {
                *p = Some((loc, msg));
            }
        });
    }));
}

fn norm_msg(m: &str) -> String {
    let mut out = String::new();
    let mut last_digit = false;
    for ch in m.chars().take(90) {
        if ch.is_ascii_digit() {
            if !last_digit {
                out.push('N');
            }
            last_digit = true;
        } else {
            last_digit = false;
            out.push(if ch.is_control() { ' ' } else { ch });
        }
    }
    out
}

fn is_harness_loc(loc: &str) -> bool {
    // the harness crate is compiled with relative paths (src/...), everything else absolute
    loc.starts_with("src/") || loc.contains("/verif/sim/")
}

pub fn take_panic() -> Option<(String, String)> {
    LAST_PANIC.with(|p| p.borrow_mut().take())
}

/// classify a caught panic (the first one of the run)
pub fn panic_verdict() -> Verdict {
    match take_panic() {
        Some((loc, msg)) => {
            if msg == "STEP-BUDGET" {
                return viol("hang/step-budget", "I/O step budget exceeded (livelock or runaway loop)");
            }
            let base = loc.rsplit('/').next().unwrap_or("").to_string();
            if is_harness_loc(&loc) {
                Verdict::Harness(format!("panic in harness at {loc}: {msg}"))
            } else {
                viol(format!("panic/{base}/{}", norm_msg(&msg)), format!("panic at {loc}: {msg}"))
            }
        }
        None => Verdict::Harness("panic without captured info".into()),
    }
}

/// Run a closure, converting an unwinding panic into a Verdict. `None` = no panic.
pub fn guard<T>(f: impl FnOnce() -> T) -> Result<T, Verdict> {
    let _ = take_panic();
    match std::panic::catch_unwind(std::panic::AssertUnwindSafe(f)) {
        Ok(v) => Ok(v),
        Err(_) => Err(panic_verdict()),
    }
}

// ------------------------------------------------------------------------------------------
// heap monitor

pub mod heap {
    use std::alloc::{GlobalAlloc, Layout, System};
    use std::sync::atomic::{AtomicUsize, Ordering};
    pub struct Counting;
    static CUR: AtomicUsize = AtomicUsize::new(0);
    static PEAK: AtomicUsize = AtomicUsize::new(0);
    unsafe impl GlobalAlloc for Counting {
        unsafe fn alloc(&self, l: Layout) -> *mut u8 {
            let p = System.alloc(l);
            if !p.is_null() {
                let c = CUR.fetch_add(l.size(), Ordering::Relaxed) + l.size();
                PEAK.fetch_max(c, Ordering::Relaxed);
            }
            p
        }
        unsafe fn dealloc(&self, p: *mut u8, l: Layout) {
            CUR.fetch_sub(l.size(), Ordering::Relaxed);
            System.dealloc(p, l)
        }
        unsafe fn alloc_zeroed(&self, l: Layout) -> *mut u8 {
            let p = System.alloc_zeroed(l);
            if !p.is_null() {
                let c = CUR.fetch_add(l.size(), Ordering::Relaxed) + l.size();
                PEAK.fetch_max(c, Ordering::Relaxed);
            }
            p
        }
        unsafe fn realloc(&self, p: *mut u8, l: Layout, new: usize) -> *mut u8 {
            let q = System.realloc(p, l, new);
            if !q.is_null() {
                if new >= l.size() {
                    let c = CUR.fetch_add(new - l.size(), Ordering::Relaxed) + (new - l.size());
                    PEAK.fetch_max(c, Ordering::Relaxed);
                } else {
                    CUR.fetch_sub(l.size() - new, Ordering::Relaxed);
                }
            }
            q
        }
    }
    /// reset the peak to the current level; returns the current level
    pub fn reset() -> usize {
        let c = CUR.load(Ordering::Relaxed);
        PEAK.store(c, Ordering::Relaxed);
        c
    }
    pub fn peak() -> usize {
        PEAK.load(Ordering::Relaxed)
    }
}

// ------------------------------------------------------------------------------------------
// known findings

#[derive(Clone, Debug, Serialize, Deserialize)]
pub struct Finding {
    pub id: String,
    pub property: String,
    pub what: String,
}
#[derive(Clone, Debug, Serialize, Deserialize, Default)]
pub struct KnownFile {
    #[serde(default)]
    pub open: Vec<Finding>,
    #[serde(default)]
    pub fixed: Vec<Value>,
}
pub fn load_known() -> KnownFile {
    let p = format!("{}/known_findings.json", verif_root());
    match std::fs::read_to_string(&p) {
        Ok(s) => serde_json::from_str(&s).unwrap_or_default(),
        Err(_) => KnownFile::default(),
    }
}
/// /verif itself even when VERIF_ROOT points at an audit sandbox (binaries live there)
pub fn verif_root_real() -> String {
    std::env::var("VERIF_BIN_ROOT").unwrap_or_else(|_| "/verif".to_string())
}
pub fn verif_root() -> String {
    std::env::var("VERIF_ROOT").unwrap_or_else(|_| "/verif".to_string())
}

// ------------------------------------------------------------------------------------------
// worker

#[derive(Serialize, Deserialize, Default)]
pub struct ChunkStats {
    pub n: u64,
    pub pass: u64,
    pub skip: u64,
    pub skips: BTreeMap<String, u64>,
    pub known: BTreeMap<String, (u64, String)>,
    pub sigs: Vec<u64>,
    pub probes: BTreeMap<String, u64>,
    pub fired: BTreeMap<String, u64>,
    pub io_events: u64,
    pub sub_evals: u64,
    pub digest: u64,
    pub sample: Option<Value>,
}

pub fn eval_case(sc: &dyn Scenario, property: &str, tier: Tier, case: &Value, open: &BTreeSet<String>) -> (Verdict, Ctx) {
    let mut ctx = Ctx::new(property, tier, open);
    let _ = take_panic();
    let r = std::panic::catch_unwind(std::panic::AssertUnwindSafe(|| sc.run(case, &mut ctx)));
    let v = match r {
        Ok(v) => v,
        Err(_) => panic_verdict(),
    };
    (v, ctx)
}

/// worker main loop: reads "a b" ranges from stdin, runs idx a..b
pub fn worker_main(sc: &dyn Scenario, property: &str, tier: Tier, seed: u64) {
    let open: BTreeSet<String> = load_known().open.into_iter().filter(|f| f.property == property).map(|f| f.id).collect();
    let stdin = std::io::stdin();
    let stdout = std::io::stdout();
    let mut out = stdout.lock();
    for line in stdin.lock().lines() {
        let line = match line {
            Ok(l) => l,
            Err(_) => break,
        };
        let mut it = line.split_whitespace();
        let a: u64 = it.next().and_then(|x| x.parse().ok()).unwrap_or(0);
        let b: u64 = it.next().and_then(|x| x.parse().ok()).unwrap_or(0);
        let mut st = ChunkStats::default();
        let mut sigs: HashSet<u64> = HashSet::new();
        for idx in a..b {
            let _ = writeln!(out, "B {idx}");
            let _ = out.flush();
            let case = sc.gen(seed, idx, tier);
            let (v, ctx) = eval_case(sc, property, tier, &case, &open);
            st.n += 1;
            st.io_events += ctx.io_events;
            st.sub_evals += ctx.sub_evals.max(1);
            // order- and partition-independent batch digest: XOR of per-run values
            let vcode = match &v {
                Verdict::Pass => 1u64,
                Verdict::Skip(r) => mix(2, fnv(r.as_bytes())),
                Verdict::Violation { class, .. } => mix(3, fnv(class.as_bytes())),
                Verdict::Known { id, .. } => mix(4, fnv(id.as_bytes())),
                Verdict::Harness(_) => 5,
            };
            let mut sub = 0u64;
            for s in &ctx.sub_sigs {
                sub ^= *s;
            }
            let runval = mix(idx, mix(mix(ctx.digest, vcode), mix(ctx.sub_evals, sub ^ ctx.sig.unwrap_or(0))));
            st.digest ^= runval;
            if std::env::var("VERIF_DEBUG_RUNS").is_ok() {
                let line = format!("RUN {idx} {runval:016x} digest={:016x} v={vcode:x} sub={} sig={:?}\n", ctx.digest, ctx.sub_evals, ctx.sig);
                let _ = std::io::stderr().write_all(line.as_bytes());
            }
            for (k, n) in ctx.probes {
                *st.probes.entry(k).or_insert(0) += n;
            }
            for (k, n) in ctx.fired {
                *st.fired.entry(k).or_insert(0) += n;
            }
            if let Some(s) = ctx.sig {
                sigs.insert(s);
            }
            for s in ctx.sub_sigs {
                sigs.insert(s);
            }
            match v {
                Verdict::Pass => st.pass += 1,
                Verdict::Skip(r) => {
                    st.skip += 1;
                    *st.skips.entry(r).or_insert(0) += 1;
                }
                Verdict::Known { id, detail } => {
                    let e = st.known.entry(id).or_insert((0, detail));
                    e.0 += 1;
                }
                Verdict::Violation { class, detail } => {
                    let _ = writeln!(out, "V {idx} {}", json!({"class": class, "detail": detail, "case": case}));
                }
                Verdict::Harness(m) => {
                    let _ = writeln!(out, "H {idx} {}", json!({"msg": m, "case": case}));
                }
            }
            if st.sample.is_none() && idx == a {
                st.sample = Some(case);
            }
        }
        st.sigs = sigs.into_iter().collect();
        let _ = writeln!(out, "C {}", serde_json::to_string(&st).unwrap_or_default());
        let _ = out.flush();
    }
}

// ------------------------------------------------------------------------------------------
// supervisor

pub struct Found {
    pub idx: u64,
    pub class: String,
    pub detail: String,
    pub case: Value,
}

#[derive(Default)]
pub struct BatchResult {
    pub evaluations: u64,
    pub runs: u64,
    pub pass: u64,
    pub skip: u64,
    pub skips: BTreeMap<String, u64>,
    pub known: BTreeMap<String, (u64, String)>,
    pub sigs: HashSet<u64>,
    pub probes: BTreeMap<String, u64>,
    pub fired: BTreeMap<String, u64>,
    pub io_events: u64,
    pub digest: u64,
    pub samples: Vec<Value>,
    pub found: Vec<Found>,
    pub harness: Vec<String>,
    pub wall_s: f64,
    pub stopped_early: bool,
}

enum Msg {
    Tick(usize),
    Begin(usize, u64),
    Viol(usize, u64, Value),
    Harness(usize, String),
    Chunk(usize, Box<ChunkStats>),
    Eof(usize),
}

struct Worker {
    child: std::process::Child,
    stdin: Option<std::process::ChildStdin>,
    cur: Option<(u64, u64)>,
    last_begin: Option<u64>,
    last_activity: Instant,
    /// CPU seconds the worker had consumed when its current silence reached a quarter of the stall limit
    stall_mark: Option<f64>,
    alive: bool,
}

/// CPU seconds (user + system) consumed so far by a process; the stall watchdog measures progress in
/// CPU time so that a loaded machine (workers starved of CPU) is never mistaken for a hang.
fn proc_cpu_secs(pid: u32) -> Option<f64> {
    let s = std::fs::read_to_string(format!("/proc/{pid}/stat")).ok()?;
    let rest = s.get(s.rfind(')')? + 2..)?;
    let f: Vec<&str> = rest.split_whitespace().collect();
    let ut: f64 = f.get(11)?.parse().ok()?;
    let st: f64 = f.get(12)?.parse().ok()?;
    Some((ut + st) / 100.0)
}

fn spawn_worker(wid: usize, scenario: &str, property: &str, tier: Tier, seed: u64, tx: mpsc::Sender<Msg>, exe: Option<String>) -> Worker {
    let exe = exe.map(std::path::PathBuf::from).unwrap_or_else(|| std::env::current_exe().expect("current_exe"));
    let mut child = Command::new(exe)
        .args(["worker", "--scenario", scenario, "--property", property, "--tier", tier.name(), "--seed", &seed.to_string()])
        .stdin(Stdio::piped())
        .stdout(Stdio::piped())
        .stderr(if std::env::var("VERIF_DEBUG_RUNS").is_ok() { Stdio::inherit() } else { Stdio::null() })
        .spawn()
        .expect("spawn worker");
    let stdout = child.stdout.take().expect("stdout");
    let stdin = child.stdin.take();
    std::thread::spawn(move || {
        let rd = BufReader::new(stdout);
        for line in rd.lines() {
            let line = match line {
                Ok(l) => l,
                Err(_) => break,
            };
            let (tag, rest) = line.split_at(1.min(line.len()));
            let rest = rest.trim_start();
            let m = match tag {
                "B" => rest.parse::<u64>().ok().map(|i| Msg::Begin(wid, i)),
                "V" => {
                    let mut it = rest.splitn(2, ' ');
                    let idx = it.next().and_then(|x| x.parse::<u64>().ok()).unwrap_or(0);
                    it.next().and_then(|j| serde_json::from_str::<Value>(j).ok()).map(|v| Msg::Viol(wid, idx, v))
                }
                "H" => Some(Msg::Harness(wid, rest.to_string())),
                "T" => Some(Msg::Tick(wid)),
                "C" => serde_json::from_str::<ChunkStats>(rest).ok().map(|c| Msg::Chunk(wid, Box::new(c))),
                _ => None,
            };
            if let Some(m) = m {
                if tx.send(m).is_err() {
                    break;
                }
            }
        }
        let _ = tx.send(Msg::Eof(wid));
    });
    Worker { child, stdin, cur: None, last_begin: None, last_activity: Instant::now(), stall_mark: None, alive: true }
}

pub struct BatchCfg<'a> {
    pub scenario: &'a dyn Scenario,
    pub property: &'a str,
    pub tier: Tier,
    pub seed: u64,
    pub total: u64,
    pub workers: usize,
    pub deadline: Option<Instant>,
    pub stall_secs: u64,
}

pub fn run_batch(cfg: &BatchCfg) -> BatchResult {
    let t0 = Instant::now();
    let mut res = BatchResult::default();
    let (tx, rx) = mpsc::channel::<Msg>();
    let nw = cfg.workers.max(1).min(cfg.total.max(1) as usize);
    let chunk = (cfg.total / (nw as u64 * 24)).clamp(1, 2048);
    let mut next: u64 = 0;
    let mut pending: Vec<(u64, u64)> = vec![]; // re-queued remainders after a crash
    let mut workers: Vec<Worker> = (0..nw).map(|w| spawn_worker(w, cfg.scenario.name(), cfg.property, cfg.tier, cfg.seed, tx.clone(), cfg.scenario.worker_exe())).collect();
    let mut active = 0usize;

    let mut assign = |w: &mut Worker, next: &mut u64, pending: &mut Vec<(u64, u64)>, stop: bool| -> bool {
        let range = if let Some(r) = pending.pop() {
            Some(r)
        } else if !stop && *next < cfg.total {
            let a = *next;
            let b = (a + chunk).min(cfg.total);
            *next = b;
            Some((a, b))
        } else {
            None
        };
        match range {
            Some((a, b)) => {
                w.cur = Some((a, b));
                w.last_begin = None;
                w.last_activity = Instant::now();
                if let Some(si) = w.stdin.as_mut() {
                    let _ = writeln!(si, "{a} {b}");
                    let _ = si.flush();
                }
                true
            }
            None => {
                w.cur = None;
                w.stdin = None; // closes the pipe -> worker exits
                false
            }
        }
    };
    for w in workers.iter_mut() {
        if assign(w, &mut next, &mut pending, false) {
            active += 1;
        }
    }
    let mut last_wd = Instant::now();
    while active > 0 {
        if last_wd.elapsed() >= Duration::from_millis(500) {
            last_wd = Instant::now();
            // watchdog for CPU loops without I/O: a worker is killed when it has been silent for
            // stall_secs of wall time AND has burnt at least half of that in CPU since the silence
            // reached a quarter of the limit (so starvation on a loaded machine is not a hang);
            // a worker that is silent without using CPU (blocked) is killed after 10 x stall_secs.
            for w in workers.iter_mut() {
                if w.cur.is_none() || !w.alive {
                    continue;
                }
                let el = w.last_activity.elapsed().as_secs_f64();
                let lim = cfg.stall_secs as f64;
                if el < lim / 4.0 {
                    w.stall_mark = None;
                    continue;
                }
                let cpu = proc_cpu_secs(w.child.id());
                if w.stall_mark.is_none() {
                    w.stall_mark = cpu;
                }
                if el > lim {
                    let burnt = match (cpu, w.stall_mark) {
                        (Some(c), Some(m)) => c - m,
                        _ => el, // no /proc: fall back to wall time
                    };
                    if burnt > lim / 2.0 || el > lim * 10.0 {
                        let _ = w.child.kill();
                        // Eof handler will record it as abort/SIGKILL
                    }
                }
            }
        }
        let stop = cfg.deadline.map(|d| Instant::now() >= d).unwrap_or(false) || res.found.len() >= 40;
        if stop && next < cfg.total {
            res.stopped_early = true;
        }
        match rx.recv_timeout(Duration::from_millis(500)) {
            Ok(Msg::Tick(w)) => {
                workers[w].last_activity = Instant::now();
            }
            Ok(Msg::Begin(w, idx)) => {
                workers[w].last_begin = Some(idx);
                workers[w].last_activity = Instant::now();
            }
            Ok(Msg::Viol(w, idx, v)) => {
                workers[w].last_activity = Instant::now();
                res.found.push(Found {
                    idx,
                    class: v["class"].as_str().unwrap_or("?").to_string(),
                    detail: v["detail"].as_str().unwrap_or("").to_string(),
                    case: v["case"].clone(),
                });
            }
            Ok(Msg::Harness(_, m)) => res.harness.push(m),
            Ok(Msg::Chunk(w, c)) => {
                res.runs += c.n;
                res.evaluations += c.sub_evals;
                res.pass += c.pass;
                res.skip += c.skip;
                for (k, n) in c.skips {
                    *res.skips.entry(k).or_insert(0) += n;
                }
                for (k, (n, d)) in c.known {
                    let e = res.known.entry(k).or_insert((0, d));
                    e.0 += n;
                }
                for s in c.sigs {
                    res.sigs.insert(s);
                }
                for (k, n) in c.probes {
                    *res.probes.entry(k).or_insert(0) += n;
                }
                for (k, n) in c.fired {
                    *res.fired.entry(k).or_insert(0) += n;
                }
                res.io_events += c.io_events;
                res.digest ^= c.digest;
                if res.samples.len() < 4 {
                    if let Some(s) = c.sample {
                        res.samples.push(s);
                    }
                }
                if !assign(&mut workers[w], &mut next, &mut pending, stop) {
                    active -= 1;
                }
            }
            Ok(Msg::Eof(w)) => {
                let wk = &mut workers[w];
                if !wk.alive {
                    continue;
                }
                wk.alive = false;
                let status = wk.child.wait().ok();
                if let Some((_a, b)) = wk.cur.take() {
                    // died inside a run
                    let idx = wk.last_begin;
                    let sig = status.map(|s| describe_status(&s)).unwrap_or_else(|| "unknown".into());
                    if let Some(idx) = idx {
                        let case = cfg.scenario.gen(cfg.seed, idx, cfg.tier);
                        res.found.push(Found { idx, class: format!("abort/{sig}"), detail: format!("worker process died ({sig}) during run {idx}"), case });
                        res.runs += 1;
                        res.evaluations += 1;
                        if idx + 1 < b {
                            pending.push((idx + 1, b));
                        }
                    } else {
                        res.harness.push(format!("worker {w} died before starting a run ({sig})"));
                    }
                    // replace the worker
                    let mut nwk = spawn_worker(w, cfg.scenario.name(), cfg.property, cfg.tier, cfg.seed, tx.clone(), cfg.scenario.worker_exe());
                    if !assign(&mut nwk, &mut next, &mut pending, stop) {
                        active -= 1;
                    }
                    workers[w] = nwk;
                }
            }
            Err(mpsc::RecvTimeoutError::Timeout) => {
            }
            Err(mpsc::RecvTimeoutError::Disconnected) => break,
        }
    }
    for w in workers.iter_mut() {
        w.stdin = None;
        let _ = w.child.wait();
    }
    res.wall_s = t0.elapsed().as_secs_f64();
    res
}

fn describe_status(s: &std::process::ExitStatus) -> String {
    use std::os::unix::process::ExitStatusExt;
    if let Some(sig) = s.signal() {
        match sig {
            6 => "SIGABRT".into(),
            9 => "SIGKILL".into(),
            11 => "SIGSEGV".into(),
            n => format!("signal{n}"),
        }
    } else {
        format!("exit{}", s.code().unwrap_or(-1))
    }
}

// ------------------------------------------------------------------------------------------
// subprocess evaluation of one case (used by shrinking and replay)

#[derive(Serialize, Deserialize, Debug, Clone)]
pub struct EvalOut {
    pub verdict: Verdict,
    pub digest: u64,
}

pub fn eval_subprocess(scenario: &str, property: &str, tier: Tier, case: &Value, timeout_s: u64) -> EvalOut {
    eval_subprocess_with(None, scenario, property, tier, case, timeout_s)
}

pub fn eval_subprocess_with(exe: Option<String>, scenario: &str, property: &str, tier: Tier, case: &Value, timeout_s: u64) -> EvalOut {
    let exe = exe.map(std::path::PathBuf::from).unwrap_or_else(|| std::env::current_exe().expect("current_exe"));
    let mut child = match Command::new(exe)
        .args(["eval", "--scenario", scenario, "--property", property, "--tier", tier.name()])
        .stdin(Stdio::piped())
        .stdout(Stdio::piped())
        .stderr(Stdio::null())
        .spawn()
    {
        Ok(c) => c,
        Err(e) => return EvalOut { verdict: Verdict::Harness(format!("spawn failed: {e}")), digest: 0 },
    };
    if let Some(mut si) = child.stdin.take() {
        let _ = si.write_all(case.to_string().as_bytes());
    }
    let mut stdout = child.stdout.take().expect("stdout");
    let (tx, rx) = mpsc::channel();
    std::thread::spawn(move || {
        let mut s = String::new();
        let _ = stdout.read_to_string(&mut s);
        let _ = tx.send(s);
    });
    // same rule as the batch watchdog: wall time over the limit AND at least half of it burnt in CPU
    // (or 10 x the limit with no CPU use at all)
    let t_start = Instant::now();
    let pid = child.id();
    let out = loop {
        match rx.recv_timeout(Duration::from_millis(200)) {
            Ok(s) => break s,
            Err(mpsc::RecvTimeoutError::Disconnected) => break String::new(),
            Err(mpsc::RecvTimeoutError::Timeout) => {
                let el = t_start.elapsed().as_secs_f64();
                let lim = timeout_s as f64;
                if el > lim {
                    let burnt = proc_cpu_secs(pid).unwrap_or(el);
                    if burnt > lim / 2.0 || el > lim * 10.0 {
                        let _ = child.kill();
                        let _ = child.wait();
                        return EvalOut { verdict: viol("abort/SIGKILL", "no result within the watchdog time (CPU loop?)"), digest: 0 };
                    }
                }
            }
        }
    };
    let status = child.wait().ok();
    // heartbeat lines may precede the result: the result is the last line
    let last = out.lines().rev().find(|l| !l.trim().is_empty()).unwrap_or("");
    match serde_json::from_str::<EvalOut>(last.trim()) {
        Ok(e) => e,
        Err(_) => {
            let sig = status.map(|s| describe_status(&s)).unwrap_or_else(|| "unknown".into());
            EvalOut { verdict: viol(format!("abort/{sig}"), format!("evaluation process died ({sig})")), digest: 0 }
        }
    }
}

pub fn eval_main(sc: &dyn Scenario, property: &str, tier: Tier) {
    let mut s = String::new();
    let _ = std::io::stdin().read_to_string(&mut s);
    let case: Value = match serde_json::from_str(&s) {
        Ok(v) => v,
        Err(e) => {
            println!("{}", serde_json::to_string(&EvalOut { verdict: Verdict::Harness(format!("bad case json: {e}")), digest: 0 }).unwrap_or_default());
            return;
        }
    };
    let open: BTreeSet<String> = load_known().open.into_iter().filter(|f| f.property == property).map(|f| f.id).collect();
    let (v, ctx) = eval_case(sc, property, tier, &case, &open);
    println!("{}", serde_json::to_string(&EvalOut { verdict: v, digest: ctx.digest }).unwrap_or_default());
}

fn class_of(v: &Verdict) -> Option<&str> {
    match v {
        Verdict::Violation { class, .. } => Some(class),
        _ => None,
    }
}

/// Greedy minimisation: repeatedly take the first candidate that still shows the same class.
pub fn shrink(sc: &dyn Scenario, property: &str, tier: Tier, case: &Value, class: &str, budget_evals: usize, deadline: Instant) -> (Value, usize) {
    let mut cur = case.clone();
    let mut evals = 0usize;
    let mut progress = true;
    while progress && evals < budget_evals && Instant::now() < deadline {
        progress = false;
        for cand in sc.shrink(&cur) {
            if evals >= budget_evals || Instant::now() >= deadline {
                break;
            }
            if cand == cur {
                continue;
            }
            evals += 1;
            let out = eval_subprocess_with(sc.worker_exe(), sc.name(), property, tier, &cand, 120);
            if class_of(&out.verdict) == Some(class) {
                cur = cand;
                progress = true;
                break;
            }
        }
    }
    (cur, evals)
}

#[derive(Serialize, Deserialize)]
pub struct ReplayFile {
    pub format: u32,
    pub property: String,
    pub scenario: String,
    pub tier: String,
    pub seed: u64,
    pub run: u64,
    pub class: String,
    pub detail: String,
    pub schedule_digest: u64,
    pub minimised: bool,
    pub shrink_evals: usize,
    pub case: Value,
}

pub fn write_replay(r: &ReplayFile) -> String {
    let dir = format!("{}/replays", verif_root());
    let _ = std::fs::create_dir_all(&dir);
    let tag = format!("{:08x}", fnv(r.class.as_bytes()) as u32);
    let path = format!("{dir}/{}-{}-{}-{}.json", r.property, r.scenario, r.seed, tag);
    let _ = std::fs::write(&path, serde_json::to_string_pretty(r).unwrap_or_default());
    path
}

/// Replay a file in a fresh process. Returns process exit code.
pub fn replay(path: &str, lookup: &dyn Fn(&str) -> Option<&'static dyn Scenario>) -> i32 {
    let s = match std::fs::read_to_string(path) {
        Ok(s) => s,
        Err(e) => {
            eprintln!("cannot read replay file {path}: {e}");
            return 2;
        }
    };
    let r: ReplayFile = match serde_json::from_str(&s) {
        Ok(r) => r,
        Err(e) => {
            eprintln!("bad replay file: {e}");
            return 2;
        }
    };
    let sc = match lookup(&r.scenario) {
        Some(s) => s,
        None => {
            eprintln!("unknown scenario {}", r.scenario);
            return 2;
        }
    };
    let tier = if r.tier == "thorough" { Tier::Thorough } else { Tier::Quick };
    let out = eval_subprocess_with(sc.worker_exe(), sc.name(), &r.property, tier, &r.case, 300);
    match &out.verdict {
        Verdict::Violation { class, detail } if *class == r.class => {
            if out.digest != r.schedule_digest && !class.starts_with("abort/") {
                eprintln!("schedule digest mismatch on replay ({} vs {}): determinism lost", out.digest, r.schedule_digest);
                return 2;
            }
            println!("replayed: class={class} detail={detail}");
            println!("VIOLATION property={} replay={}", r.property, path);
            1
        }
        Verdict::Violation { class, detail } => {
            println!("replay produced a different violation class: {class} ({detail}); recorded: {}", r.class);
            println!("VIOLATION property={} replay={}", r.property, path);
            1
        }
        Verdict::Known { id, detail } => {
            println!("KNOWN-FINDING: property={} {id}: {detail}", r.property);
            0
        }
        Verdict::Harness(m) => {
            eprintln!("harness error on replay: {m}");
            2
        }
        _ => {
            println!("replay did not reproduce (verdict {:?}); recorded class {}", out.verdict, r.class);
            0
        }
    }
}
