//! C09: results do not depend on how I/O is chunked. One program / image, many fragmentation
//! schedules on sink, source and caller buffers; every re-execution must reproduce the unfragmented
//! outcome exactly.

use super::common::*;
use super::prog::exec_on;
use crate::content::crc32;
use crate::indep::build::{build, Enc};
use crate::model::{run_model, Model, ModelCfg};
use crate::ops::*;
use crate::rng::{fnv, mix, Rng};
use crate::runner::*;
use crate::simio::*;
use serde::{Deserialize, Serialize};
use serde_json::Value;
use std::io::Read;
use zip::ZipArchive;

#[derive(Serialize, Deserialize, Clone, Debug, PartialEq)]
pub struct ChunkCase {
    pub src: Source,
    pub sources: Vec<Source>,
    /// extra PRNG schedules (seeds) on top of the systematic families
    pub prng_seeds: Vec<u64>,
    pub uniform_max: u64,
    /// when set: run only this one schedule (minimised replay form)
    #[serde(default)]
    pub only: Option<Sched>,
}

#[derive(Serialize, Deserialize, Clone, Debug, PartialEq)]
pub enum Side {
    Sink,
    Source,
    Stream,
    CallerWrite,
    /// the reader of the archives that raw copies are taken from
    RawSrc,
}

#[derive(Serialize, Deserialize, Clone, Debug, PartialEq)]
pub struct Sched {
    pub side: Side,
    pub policy: Policy,
    pub bufs: Vec<u32>,
}

pub struct Chunking;

#[derive(Clone, Debug, PartialEq)]
pub struct EntryOut {
    pub meta: String,
    pub len: u64,
    pub crc: u32,
    pub err: Option<String>,
    pub post_eof_zero: bool,
}

/// open the archive and report what the handle itself says (entry count, comment, names): for archives too
/// large to read every entry of under every fault index
pub fn open_outcome(store: &Shared, policy: &Policy, io_out: &mut Option<IoH>) -> Result<Vec<EntryOut>, String> {
    let disk = SimDisk::new(store.clone(), policy.clone());
    *io_out = Some(disk.io.clone());
    let ar = ZipArchive::new(disk).map_err(|e| format!("open: {}", zerr_pub(&e)))?;
    let mut names: Vec<&str> = ar.file_names().collect();
    names.sort();
    let nh = crate::rng::fnv(names.join("\u{0}").as_bytes());
    Ok(vec![EntryOut { meta: format!("archive|{}|{:#x}|{:#x}", ar.len(), crc32(ar.comment()), nh), len: 0, crc: 0, err: None, post_eof_zero: true }])
}

/// read every entry through the seekable reader
pub fn read_outcome(store: &Shared, policy: &Policy, bufs: &[u32], pw: &dyn Fn(usize) -> Option<Vec<u8>>, io_out: &mut Option<IoH>) -> Result<Vec<EntryOut>, String> {
    let disk = SimDisk::new(store.clone(), policy.clone());
    *io_out = Some(disk.io.clone());
    let mut ar = ZipArchive::new(disk).map_err(|e| format!("open: {}", zerr_pub(&e)))?;
    let mut out = vec![];
    // what the archive handle itself reports: entry count, archive comment, names. (offset() is left out on
    // purpose: with a failed seek before the ZIP64 locator probe an EMPTY archive carrying ZIP64 end records opens
    // as a plain one whose 76 bytes of ZIP64 records count as prepended data - C11 speaks of entries and content,
    // and with one entry or more the same fault ends in an error.)
    {
        let mut names: Vec<&str> = ar.file_names().collect();
        names.sort();
        let nh = crate::rng::fnv(names.join("\u{0}").as_bytes());
        out.push(EntryOut { meta: format!("archive|{}|{:#x}|{:#x}", ar.len(), crc32(ar.comment()), nh), len: 0, crc: 0, err: None, post_eof_zero: true });
    }
    for i in 0..ar.len() {
        let opened = match pw(i) {
            Some(p) => match ar.by_index_decrypt(i, &p) {
                Ok(Ok(f)) => Ok(f),
                Ok(Err(_)) => {
                    out.push(EntryOut { meta: "invalid-password".into(), len: 0, crc: 0, err: Some("InvalidPassword".into()), post_eof_zero: true });
                    continue;
                }
                Err(e) => Err(e),
            },
            None => ar.by_index(i),
        };
        match opened {
            Ok(mut f) => {
                #[allow(deprecated)]
                let meta = format!(
                    "{:?}|{}|{}|{}|{:#x}|{:?}|{:#x},{:#x}|{:#x}|{:#x}|{:#x}|{}|{}|{}",
                    f.name(),
                    f.compression().to_u16(),
                    f.size(),
                    f.compressed_size(),
                    f.crc32(),
                    f.unix_mode(),
                    f.last_modified().datepart(),
                    f.last_modified().timepart(),
                    crc32(f.name_raw()),
                    crc32(f.comment().as_bytes()),
                    crc32(f.extra_data()),
                    f.data_start(),
                    f.header_start(),
                    f.extra_data().len()
                );
                let (data, err, _) = read_all(&mut f, bufs, 1 << 30);
                let mut post = true;
                if err.is_some() {
                    // C11: "... then or on any later call": a caller may well try the same entry again
                    // after an error (a transient early end-of-file, say); those calls must return too
                    let mut b = [0u8; 64];
                    for _ in 0..4 {
                        let _ = f.read(&mut b);
                    }
                }
                if err.is_none() {
                    let mut b = [0u8; 7];
                    for _ in 0..10 {
                        match f.read(&mut b) {
                            Ok(0) => {}
                            _ => post = false,
                        }
                    }
                }
                out.push(EntryOut { meta, len: data.len() as u64, crc: crc32(&data), err: err.map(|e| format!("{:?}/{}", e.kind(), e)), post_eof_zero: post });
            }
            Err(e) => out.push(EntryOut { meta: "open-error".into(), len: 0, crc: 0, err: Some(zerr_pub(&e)), post_eof_zero: true }),
        }
    }
    Ok(out)
}

/// read every entry front to back through the streaming reader
pub fn stream_outcome(store: &Shared, policy: &Policy, bufs: &[u32], io_out: &mut Option<IoH>) -> Vec<EntryOut> {
    let mut st = SimStream::new(store.clone(), policy.clone());
    *io_out = Some(st.inner.io.clone());
    let mut out = vec![];
    loop {
        match zip::read::read_zipfile_from_stream(&mut st) {
            Ok(Some(mut f)) => {
                #[allow(deprecated)]
                let meta = format!("{:?}|{}|{}|{}|{:#x}|{:#x},{:#x}", f.name(), f.compression().to_u16(), f.size(), f.compressed_size(), f.crc32(), f.last_modified().datepart(), f.last_modified().timepart());
                let (data, err, _) = read_all(&mut f, bufs, 1 << 30);
                if err.is_some() {
                    let mut b = [0u8; 64];
                    for _ in 0..4 {
                        let _ = f.read(&mut b);
                    }
                }
                out.push(EntryOut { meta, len: data.len() as u64, crc: crc32(&data), err: err.map(|e| format!("{:?}/{}", e.kind(), e)), post_eof_zero: true });
            }
            Ok(None) => break,
            Err(e) => {
                out.push(EntryOut { meta: "stream-error".into(), len: 0, crc: 0, err: Some(zerr_pub(&e)), post_eof_zero: true });
                break;
            }
        }
        if out.len() > 100_000 {
            break;
        }
    }
    out
}

/// everything ZipStreamReader::visit delivers: the files (metadata + content), then the central metadata
pub fn visit_outcome(store: &Shared, policy: &Policy, bufs: &[u32], io_out: &mut Option<IoH>) -> Vec<EntryOut> {
    use zip::unstable::stream::{ZipStreamFileMetadata, ZipStreamReader, ZipStreamVisitor};
    struct V<'a> {
        out: Vec<EntryOut>,
        bufs: &'a [u32],
    }
    impl ZipStreamVisitor for V<'_> {
        fn visit_file(&mut self, f: &mut zip::read::ZipFile<'_>) -> zip::result::ZipResult<()> {
            #[allow(deprecated)]
            let meta = format!("file|{:?}|{}|{}|{}|{:#x}|{:#x},{:#x}", f.name(), f.compression().to_u16(), f.size(), f.compressed_size(), f.crc32(), f.last_modified().datepart(), f.last_modified().timepart());
            let (data, err, _) = read_all(f, self.bufs, 1 << 30);
            self.out.push(EntryOut { meta, len: data.len() as u64, crc: crc32(&data), err: err.map(|e| format!("{:?}/{}", e.kind(), e)), post_eof_zero: true });
            Ok(())
        }
        fn visit_additional_metadata(&mut self, m: &ZipStreamFileMetadata) -> zip::result::ZipResult<()> {
            self.out.push(EntryOut { meta: format!("meta|{:?}|{:?}|{:?}|{}", m.name(), m.unix_mode(), m.comment(), m.is_dir()), len: 0, crc: 0, err: None, post_eof_zero: true });
            Ok(())
        }
    }
    let st = SimStream::new(store.clone(), policy.clone());
    *io_out = Some(st.inner.io.clone());
    let mut v = V { out: vec![], bufs };
    let r = ZipStreamReader::new(st).visit(&mut v);
    let mut out = v.out;
    if let Err(e) = r {
        out.push(EntryOut { meta: "stream-error".into(), len: 0, crc: 0, err: Some(zerr_pub(&e)), post_eof_zero: true });
    }
    out
}

fn first_diff(a: &[EntryOut], b: &[EntryOut]) -> String {
    if a.len() != b.len() {
        return format!("{} entries vs {} entries", a.len(), b.len());
    }
    for (i, (x, y)) in a.iter().zip(b.iter()).enumerate() {
        if x != y {
            return format!("entry {i}: unfragmented {{meta {}, len {}, crc {:#x}, err {:?}, post-EOF zero {}}} vs fragmented {{meta {}, len {}, crc {:#x}, err {:?}, post-EOF zero {}}}", x.meta, x.len, x.crc, x.err, x.post_eof_zero, y.meta, y.len, y.crc, y.err, y.post_eof_zero);
        }
    }
    "no difference".into()
}

fn respl(ops: &[Op], mode: u8, r: &mut Rng) -> Vec<Op> {
    ops.iter()
        .map(|op| match op {
            Op::Write { c, .. } => Op::Write {
                c: c.clone(),
                split: match mode {
                    0 => vec![],
                    1 => vec![1; c.len().min(5000) as usize],
                    2 => (0..8).map(|_| r.below(c.len() + 1) as u32).collect(),
                    _ => vec![0, 3, 0, 7, 0],
                },
            },
            o => o.clone(),
        })
        .collect()
}

impl Scenario for Chunking {
    fn name(&self) -> &'static str {
        "chunking"
    }
    fn total(&self, tier: Tier) -> u64 {
        match tier {
            Tier::Quick => 4_000,
            Tier::Thorough => 120_000,
        }
    }
    fn rule(&self) -> &'static str {
        "one case = one writer program or independently built archive (all methods; plain, ZipCrypto, AE-1/AE-2 entries); one evaluation = one re-execution under one fragmentation schedule (sink: uniform k / PRNG / one short write at every call index; source and stream: uniform k / BufReader-like / PRNG / one short read at every call index; caller read buffers incl. zero-length; caller write splits). Non-trivial = at least one short transfer actually landed; distinct = (case hash, schedule digest)"
    }
    fn exhaustive_note(&self) -> Option<&'static str> {
        Some("per case: one short transfer at EVERY I/O call index (enumerated when the unfragmented run has <= 400 calls of that kind, sampled otherwise)")
    }
    fn gen(&self, seed: u64, idx: u64, _tier: Tier) -> Value {
        let s = mix(mix(seed, fnv(b"chunking")), idx);
        let mut r = Rng::derive(s, "workload");
        let mut rs = Rng::derive(s, "swarm");
        let mut sources = vec![];
        let src = if rs.chance(1, 2) {
            let nsrc = if rs.chance(1, 3) { 1 } else { 0 };
            for _ in 0..nsrc {
                let mut s = gen_source(&mut r);
                if let Source::Built(l) = &mut s {
                    l.trailing = 0;
                    for e in l.entries.iter_mut() {
                        e.enc = None;
                    }
                }
                sources.push(s);
            }
            let src_lens: Vec<usize> = sources.iter().map(|s| source_entries(&s.image()).len()).collect();
            let cfg = GenCfg {
                max_entries: 4,
                max_content: *rs.pick(&[16u64, 300, 4096, 70_000]),
                methods: METHODS.to_vec(),
                extra: true,
                aligned: true,
                enc: true,
                n_sources: sources.len(),
                src_lens,
                append: false,
                long_names: false,
                comment_max: 50,
                misc_ops: true,
            };
            let mut ops = gen_program(&mut r, &cfg);
            tame_levels(&mut ops);
            Source::Prog(ops)
        } else {
            let mut l = gen_layout(&mut r, 4, *rs.pick(&[16u64, 300, 4096, 70_000]), true);
            l.trailing = 0;
            // encrypted entries are the point here: force some
            for e in l.entries.iter_mut() {
                if !matches!(e.method, 0 | 8 | 12 | 93) {
                    e.method = 8;
                }
                if e.enc.is_none() && r.chance(1, 3) {
                    e.enc = Some(if r.chance(1, 2) {
                        Enc::ZipCrypto { pw: crate::content::Hex(r.rbytes(0, 6)), infozip: r.chance(1, 2) }
                    } else {
                        Enc::Aes { pw: crate::content::Hex(r.rbytes(0, 6)), strength: r.range(1, 3) as u8, version: r.range(1, 2) as u8, salt_seed: r.next_u64() }
                    });
                }
            }
            Source::Built(l)
        };
        let case = ChunkCase { src, sources, prng_seeds: (0..3).map(|_| r.next_u64()).collect(), uniform_max: rs.pickc(&[3u64, 8, 17]), only: None };
        serde_json::to_value(case).unwrap_or(Value::Null)
    }

    fn run(&self, case: &Value, ctx: &mut Ctx) -> Verdict {
        let c: ChunkCase = match serde_json::from_value(case.clone()) {
            Ok(c) => c,
            Err(e) => return Verdict::Harness(format!("bad case: {e}")),
        };
        let case_hash = fnv(case.to_string().as_bytes());
        let (src_stores, src_infos, _) = sources_to_stores(&c.sources);
        let mut r = Rng::new(case_hash);
        // ---- the caller's split of one LARGE incompressible write into a compressing entry (one case in eight):
        // in one piece, as a gathered write of two large slices, in 4 KiB pieces - all three must decode to the
        // bytes written. (The encoders take such a buffer only in part per call; the program cases below are too
        // small for that, and enumerating sink schedules over 200 KB would take minutes.)
        if case_hash % 8 == 0 && c.only.is_none() {
            let method = [zip::CompressionMethod::Deflated, zip::CompressionMethod::Zstd, zip::CompressionMethod::Bzip2, zip::CompressionMethod::Deflated][(case_hash >> 8) as usize % 4];
            let level = if method == zip::CompressionMethod::Bzip2 { Some(1) } else { None };
            let data = Rng::new(case_hash ^ 0xB16).bytes(150_000 + (case_hash >> 16) as usize % 120_000);
            for variant in 0..3u8 {
                let st = shared_empty();
                let res = guard(|| -> Result<Vec<u8>, String> {
                    use std::io::{Read, Write};
                    let mut w = zip::ZipWriter::new(SimDisk::new(st.clone(), Policy::Pure));
                    w.start_file("big", zip::write::FileOptions::default().compression_method(method).compression_level(level).last_modified_time(zip::DateTime::default())).map_err(|e| zerr_pub(&e))?;
                    match variant {
                        0 => w.write_all(&data).map_err(|e| e.to_string())?,
                        1 => {
                            let mut off = 0usize;
                            while off < data.len() {
                                let rest = &data[off..];
                                let (a, b) = rest.split_at(rest.len() * 2 / 3 + 1);
                                let n = w.write_vectored(&[std::io::IoSlice::new(a), std::io::IoSlice::new(&[]), std::io::IoSlice::new(b)]).map_err(|e| e.to_string())?;
                                if n == 0 {
                                    return Err("write_vectored returned Ok(0)".into());
                                }
                                off += n;
                            }
                        }
                        _ => {
                            for piece in data.chunks(4096) {
                                w.write_all(piece).map_err(|e| e.to_string())?;
                                let _ = w.write(&[]);
                            }
                        }
                    }
                    w.finish().map_err(|e| zerr_pub(&e))?;
                    let mut ar = ZipArchive::new(SimDisk::new(st.clone(), Policy::Pure)).map_err(|e| zerr_pub(&e))?;
                    let mut f = ar.by_index(0).map_err(|e| zerr_pub(&e))?;
                    let mut out = vec![];
                    f.read_to_end(&mut out).map_err(|e| e.to_string())?;
                    Ok(out)
                });
                ctx.sub_evals += 1;
                let how = ["one write_all", "gathered writes of two large slices", "4 KiB pieces with zero-length writes in between"][variant as usize];
                match res {
                    Err(v) => return v,
                    Ok(Err(e)) => return viol("C09/caller-write-split", format!("{} bytes of incompressible data written to a {method:?} entry as {how}: {e}", data.len())),
                    Ok(Ok(out)) if out != data => {
                        let at = out.iter().zip(data.iter()).position(|(a, b)| a != b).unwrap_or(out.len().min(data.len()));
                        return viol("C09/caller-write-split", format!("{} bytes of incompressible data written to a {method:?} entry as {how} decode to {} bytes, first difference at {at}", data.len(), out.len()));
                    }
                    _ => ctx.probe("large_incompressible_write_split_three_ways"),
                }
            }
        }
        // ---- reference execution
        let (store0, passwords, ops): (Shared, Vec<Option<Vec<u8>>>, Option<Vec<Op>>) = match &c.src {
            Source::Prog(ops) => {
                let store = shared_empty();
                let (out, _io) = exec_on(store.clone(), false, ops, &src_stores, &Policy::Pure, 0, true);
                let mut m = Model::new(ModelCfg { enforce_unrepresentable: false, bzip2_level0_err: true });
                let lookup = |si: usize, idx: usize, how: u8| resolve_src(&src_infos, si, idx, how);
                if run_model(&mut m, ops, &out.steps, &out.final_res, &lookup).is_err() || !m.complete || m.lenient {
                    return Verdict::Skip("program did not produce a complete archive".into());
                }
                (store, m.entries.iter().map(|e| e.password.clone()).collect(), Some(ops.clone()))
            }
            Source::Built(l) => {
                let b = build(l);
                let pws = b
                    .order
                    .iter()
                    .map(|ei| match &l.entries[*ei].enc {
                        Some(Enc::ZipCrypto { pw, .. }) | Some(Enc::Aes { pw, .. }) => Some(pw.0.clone()),
                        None => None,
                    })
                    .collect();
                (shared_from(&b.image), pws, None)
            }
        };
        let image0 = image_of(&store0);
        let pw = |i: usize| passwords.get(i).cloned().flatten();
        let mut io = None;
        let o0 = match read_outcome(&store0, &Policy::Pure, &[], &pw, &mut io) {
            Ok(o) => o,
            Err(e) => return Verdict::Skip(format!("reference read failed to open: {e}")),
        };
        let read_calls = io.as_ref().map(|i| stats(i).kinds[OpKind::Read as usize]).unwrap_or(0);
        let total_calls0 = io.as_ref().map(|i| stats(i).calls).unwrap_or(0);
        let mut ios = None;
        let s0 = stream_outcome(&store0, &Policy::Pure, &[], &mut ios);
        let stream_calls = ios.as_ref().map(|i| stats(i).calls).unwrap_or(0);
        // ---- schedules
        let mut scheds: Vec<Sched> = vec![];
        if let Some(s) = &c.only {
            scheds.push(s.clone());
        } else {
            let bufsets: Vec<Vec<u32>> = vec![vec![], vec![1], vec![0, 1, 0, 7], vec![2, 3, 16, 17, 4096], vec![65536]];
            for k in 1..=c.uniform_max {
                scheds.push(Sched { side: Side::Source, policy: Policy::Uniform(k), bufs: bufsets[(k as usize) % bufsets.len()].clone() });
                scheds.push(Sched { side: Side::Stream, policy: Policy::Uniform(k), bufs: bufsets[(k as usize + 1) % bufsets.len()].clone() });
            }
            for cap in [1u64, 5, 512, 8192] {
                scheds.push(Sched { side: Side::Source, policy: Policy::BufLike { cap }, bufs: bufsets[(cap as usize) % bufsets.len()].clone() });
                scheds.push(Sched { side: Side::Stream, policy: Policy::BufLike { cap }, bufs: vec![] });
            }
            for (i, sd) in c.prng_seeds.iter().enumerate() {
                let pm = [1000u32, 300, 50][i % 3];
                scheds.push(Sched { side: Side::Source, policy: Policy::Prng { seed: *sd, short_pm: pm }, bufs: bufsets[i % bufsets.len()].clone() });
                scheds.push(Sched { side: Side::Stream, policy: Policy::Prng { seed: *sd ^ 1, short_pm: pm }, bufs: bufsets[(i + 2) % bufsets.len()].clone() });
            }
            for b in &bufsets[1..] {
                scheds.push(Sched { side: Side::Source, policy: Policy::Pure, bufs: b.clone() });
            }
            // one short read at every call index
            let pick = |n: u64, r: &mut Rng| -> Vec<u64> {
                if n <= 400 {
                    (0..n).collect()
                } else {
                    let mut v: Vec<u64> = (0..100).collect();
                    v.extend(n - 100..n);
                    for _ in 0..200 {
                        v.push(r.below(n));
                    }
                    v
                }
            };
            for k in pick(total_calls0, &mut r) {
                scheds.push(Sched { side: Side::Source, policy: Policy::At { k, d: Decision::Short(r.pickc(&[1u64, 1, 2, 3, 11])) }, bufs: vec![] });
            }
            for k in pick(stream_calls, &mut r) {
                scheds.push(Sched { side: Side::Stream, policy: Policy::At { k, d: Decision::Short(r.pickc(&[1u64, 1, 2, 3, 11])) }, bufs: vec![] });
            }
            if ops.is_some() {
                for k in 1..=c.uniform_max.min(4) {
                    scheds.push(Sched { side: Side::Sink, policy: Policy::Uniform(k), bufs: vec![] });
                }
                for (i, sd) in c.prng_seeds.iter().enumerate() {
                    scheds.push(Sched { side: Side::Sink, policy: Policy::Prng { seed: *sd ^ 7, short_pm: [1000u32, 300, 50][i % 3] }, bufs: vec![] });
                }
                for m in 0..4u32 {
                    scheds.push(Sched { side: Side::CallerWrite, policy: Policy::Pure, bufs: vec![m] });
                }
                if !src_stores.is_empty() {
                    // raw copies: the source archive's reader may split its reads as well
                    for p in [Policy::Uniform(1), Policy::Uniform(3), Policy::Uniform(c.uniform_max.max(2)), Policy::BufLike { cap: 5 }, Policy::BufLike { cap: 512 }, Policy::Prng { seed: c.prng_seeds.first().copied().unwrap_or(1) ^ 99, short_pm: 300 }] {
                        scheds.push(Sched { side: Side::RawSrc, policy: p, bufs: vec![] });
                    }
                }
            }
        }
        // sink: one short write at every call index (needs the call count of the reference execution)
        let mut sink_calls = 0u64;
        if let (Some(ops), None) = (&ops, &c.only) {
            let st = shared_empty();
            let (_o, io) = exec_on(st, false, ops, &src_stores, &Policy::Pure, 0, true);
            sink_calls = stats(&io).calls;
            let ks: Vec<u64> = if sink_calls <= 400 { (0..sink_calls).collect() } else { (0..150).chain(sink_calls - 150..sink_calls).collect() };
            for k in ks {
                scheds.push(Sched { side: Side::Sink, policy: Policy::At { k, d: Decision::Short(r.pickc(&[1u64, 1, 2, 5])) }, bufs: vec![] });
            }
        }
        ctx.probe_n("read_calls_in_reference", read_calls);
        ctx.probe_n("sink_calls_in_reference", sink_calls);
        let _ = read_calls;
        // ---- evaluate
        for sc in &scheds {
            ctx.sub_evals += 1;
                        ctx.tick();
            let mut io: Option<IoH> = None;
            let res: Result<(), (String, String)> = match sc.side {
                Side::Source => match read_outcome(&store0, &sc.policy, &sc.bufs, &pw, &mut io) {
                    Ok(o) => {
                        if o == o0 {
                            Ok(())
                        } else {
                            Err(("C09/source-chunking".into(), first_diff(&o0, &o)))
                        }
                    }
                    Err(e) => Err(("C09/source-chunking".into(), format!("archive no longer opens under a short-read schedule: {e}"))),
                },
                Side::Stream => {
                    let o = stream_outcome(&store0, &sc.policy, &sc.bufs, &mut io);
                    // the caller buffer sizes differ from the reference run: compare only what must be equal
                    if o == s0 {
                        Ok(())
                    } else {
                        Err(("C09/stream-chunking".into(), first_diff(&s0, &o)))
                    }
                }
                Side::Sink => {
                    let st = shared_empty();
                    let (_o, sio) = exec_on(st.clone(), false, ops.as_ref().map(|v| v.as_slice()).unwrap_or(&[]), &src_stores, &sc.policy, 0, true);
                    io = Some(sio);
                    let img = image_of(&st);
                    if img == image0 {
                        Ok(())
                    } else {
                        let at = img.iter().zip(image0.iter()).position(|(a, b)| a != b).unwrap_or(img.len().min(image0.len()));
                        Err(("C09/sink-chunking".into(), format!("image differs from the unfragmented run: {} vs {} bytes, first difference at {at}", img.len(), image0.len())))
                    }
                }
                Side::RawSrc => {
                    let st = shared_empty();
                    let (_o, _sio, rio) = super::prog::exec_full(st.clone(), false, ops.as_ref().map(|v| v.as_slice()).unwrap_or(&[]), &src_stores, &Policy::Pure, &sc.policy, 0, true);
                    io = Some(rio);
                    let img = image_of(&st);
                    if img == image0 {
                        Ok(())
                    } else {
                        let at = img.iter().zip(image0.iter()).position(|(a, b)| a != b).unwrap_or(img.len().min(image0.len()));
                        Err(("C09/raw-copy-source-chunking".into(), format!("image differs from the run whose raw-copy source was read unfragmented: {} vs {} bytes, first difference at {at}", img.len(), image0.len())))
                    }
                }
                Side::CallerWrite => {
                    let mode = sc.bufs.first().copied().unwrap_or(0) as u8;
                    let ops2 = respl(ops.as_ref().map(|v| v.as_slice()).unwrap_or(&[]), mode, &mut r);
                    let st = shared_empty();
                    let (_o, sio) = exec_on(st.clone(), false, &ops2, &src_stores, &Policy::Pure, 0, true);
                    io = Some(sio);
                    let mut rio = None;
                    match read_outcome(&st, &Policy::Pure, &[], &pw, &mut rio) {
                        Ok(o) => {
                            // compressed bytes may differ with the caller's split: compare decoded results
                            let strip = |v: &[EntryOut]| -> Vec<(String, u64, u32, Option<String>)> {
                                v.iter()
                                    .map(|e| {
                                        let name = e.meta.split('|').next().unwrap_or("").to_string();
                                        (name, e.len, e.crc, e.err.clone())
                                    })
                                    .collect()
                            };
                            if strip(&o) == strip(&o0) {
                                Ok(())
                            } else {
                                Err(("C09/caller-write-split".into(), first_diff(&o0, &o)))
                            }
                        }
                        Err(e) => Err(("C09/caller-write-split".into(), format!("archive written with a different caller split does not open: {e}"))),
                    }
                }
            };
            let mut landed = false;
            if let Some(io) = &io {
                let st = stats(io);
                landed = st.fired.get("short").copied().unwrap_or(0) > 0;
                ctx.absorb(io);
                if landed {
                    ctx.sub_sigs.push(mix(case_hash, st.digest));
                }
            }
            if !landed && matches!(sc.side, Side::CallerWrite) {
                ctx.sub_sigs.push(mix(case_hash, fnv(format!("{sc:?}").as_bytes())));
            }
            if let Err((class, detail)) = res {
                // report with the single failing schedule so that the replay file is minimal
                return Verdict::Violation { class, detail: format!("{detail} || schedule: {}", serde_json::to_string(sc).unwrap_or_default()) };
            }
        }
        Verdict::Pass
    }

    fn shrink(&self, case: &Value) -> Vec<Value> {
        let c: ChunkCase = match serde_json::from_value(case.clone()) {
            Ok(c) => c,
            Err(_) => return vec![],
        };
        let mut out: Vec<ChunkCase> = vec![];
        // first: pin the failing schedule (taken from the violation detail by the supervisor is not
        // possible here, so try every family representative)
        if c.only.is_none() {
            let bufsets: Vec<Vec<u32>> = vec![vec![], vec![1], vec![0, 1, 0, 7]];
            for side in [Side::Source, Side::Stream, Side::Sink] {
                for p in [Policy::Uniform(1), Policy::Uniform(3), Policy::BufLike { cap: 5 }] {
                    for b in &bufsets {
                        out.push(ChunkCase { only: Some(Sched { side: side.clone(), policy: p.clone(), bufs: b.clone() }), ..c.clone() });
                    }
                }
            }
            for m in 0..4u32 {
                out.push(ChunkCase { only: Some(Sched { side: Side::CallerWrite, policy: Policy::Pure, bufs: vec![m] }), ..c.clone() });
            }
        }
        match &c.src {
            Source::Prog(ops) => {
                for o in shrink_ops(ops) {
                    out.push(ChunkCase { src: Source::Prog(o), ..c.clone() });
                }
            }
            Source::Built(l) => {
                for l2 in shrink_layout(l) {
                    out.push(ChunkCase { src: Source::Built(l2), ..c.clone() });
                }
            }
        }
        out.into_iter().filter_map(|c| serde_json::to_value(c).ok()).collect()
    }
}
