//! C20-A: cloned archive handles used in any interleaving on one logical thread of control.
//! Each handle runs its script in its own OS thread, but a seeded scheduler releases exactly one
//! script step at a time (baton passing), so the interleaving is decided by the seed and replays
//! exactly. Oracle: every handle's observation log equals the log of the same script run alone.

use super::common::*;
use crate::content::crc32;
use crate::indep::build::{build, Enc, Layout};
use crate::ops::*;
use crate::rng::{fnv, mix, Rng};
use crate::runner::*;
use crate::simio::*;
use serde::{Deserialize, Serialize};
use serde_json::Value;
use std::io::Read;
use std::sync::mpsc;
use zip::ZipArchive;

#[derive(Serialize, Deserialize, Clone, Debug, PartialEq)]
pub enum CStep {
    Open(usize),
    OpenRaw(usize),
    OpenDecrypt(usize, crate::content::Hex),
    OpenByName(usize),
    Read(u32),
    ReadToEnd,
    Accessors,
    Close,
    ArchiveInfo,
}

#[derive(Serialize, Deserialize, Clone, Debug, PartialEq)]
pub struct CloneCase {
    pub layout: Layout,
    pub scripts: Vec<Vec<CStep>>,
    pub sched_seed: u64,
    pub policy: Policy,
    /// per handle: I/O failures of that handle's OWN cloned reader (call index after the clone was taken).
    /// A faulty handle may observe anything but a panic; every other handle must be unaffected.
    #[serde(default)]
    pub faults: Vec<Vec<(u64, Decision)>>,
    /// bit rot in one entry's data (entry index, position seed): errors (bad checksum, decoder errors) are then
    /// part of what every handle must observe - exactly as it would alone, whatever the other handles did before
    #[serde(default)]
    pub damage: Option<(usize, u64)>,
}

/// apply the case's bit rot to the built image
pub fn damaged_image(b: &crate::indep::build::Built, damage: &Option<(usize, u64)>) -> Vec<u8> {
    let mut img = b.image.clone();
    if let Some((i, ps)) = damage {
        if let Some(inf) = b.infos.get(*i % b.infos.len().max(1)) {
            if (ps >> 40) % 4 == 0 && inf.data_start > inf.header_start {
                // the local header instead of the data (signature, lengths, name): an open that is refused, or that
                // lands on the wrong bytes, must be refused / land there for every handle and every time
                let p = b.abs(inf.header_start + (ps >> 8) % (inf.data_start - inf.header_start)) as usize;
                if p < img.len() {
                    img[p] ^= 1 << (ps % 8);
                }
            } else if inf.csize > 0 {
                let p = (inf.data_start + ps % inf.csize) as usize;
                if p < img.len() {
                    img[p] ^= 1 << (ps % 8);
                }
            }
        }
    }
    img
}

pub struct Clones;

/// faults for all handles but (at least) one
pub fn gen_handle_faults(r: &mut Rng, handles: usize) -> Vec<Vec<(u64, Decision)>> {
    let clean = r.usize_below(handles);
    (0..handles)
        .map(|k| {
            if k == clean || r.chance(1, 2) {
                vec![]
            } else {
                (0..r.range(1, 3)).map(|_| (r.below(16), r.pickc(&[Decision::Fail(EK::Other), Decision::Fail(EK::Other), Decision::EofEarly, Decision::Eintr]))).collect()
            }
        })
        .collect()
}

fn handle_policy(base: &Policy, faults: &[Vec<(u64, Decision)>], k: usize) -> Policy {
    match faults.get(k) {
        Some(f) if !f.is_empty() => Policy::Explicit(f.clone()),
        _ => base.clone(),
    }
}

fn is_faulty(faults: &[Vec<(u64, Decision)>], k: usize) -> bool {
    faults.get(k).map(|f| !f.is_empty()).unwrap_or(false)
}

/// run one script against an archive handle; `gate` is called before every step (the scheduler's hook)
/// The harness must build whatever the auto traits of `ZipArchive` are: whether the handle is `Send + Sync`
/// is decided by the compile-time probe crate (part C), which reports a violation instead of a build failure
/// of the whole harness. Moving a handle to its own thread is sound here in any case for part A (exactly one
/// thread runs at a time and every hand-over goes through a channel).
pub struct ForceSend<T>(pub T);
unsafe impl<T> Send for ForceSend<T> {}

pub fn run_script(ar: &mut ZipArchive<SimDisk>, script: &[CStep], names: &[String], gate: &mut dyn FnMut()) -> Vec<String> {
    let mut log: Vec<String> = vec![];
    let mut i = 0usize;
    while i < script.len() {
        gate();
        let step = script[i].clone();
        i += 1;
        let opened = match &step {
            CStep::Open(k) => Some(ar.by_index(*k).map_err(|e| zerr_pub(&e))),
            CStep::OpenRaw(k) => Some(ar.by_index_raw(*k).map_err(|e| zerr_pub(&e))),
            CStep::OpenDecrypt(k, pw) => Some(match ar.by_index_decrypt(*k, &pw.0) {
                Ok(Ok(f)) => Ok(f),
                Ok(Err(_)) => Err("InvalidPassword".to_string()),
                Err(e) => Err(zerr_pub(&e)),
            }),
            CStep::OpenByName(k) => Some(ar.by_name(names.get(*k).map(|s| s.as_str()).unwrap_or("")).map_err(|e| zerr_pub(&e))),
            CStep::ArchiveInfo => {
                let mut n: Vec<String> = ar.file_names().map(|s| s.to_string()).collect();
                n.sort();
                log.push(format!("info len={} offset={} comment={:x} names={:x}", ar.len(), ar.offset(), crc32(ar.comment()), fnv(n.join("\n").as_bytes())));
                None
            }
            other => {
                log.push(format!("{other:?} without an open entry"));
                None
            }
        };
        let mut f = match opened {
            None => continue,
            Some(Err(e)) => {
                log.push(format!("{step:?} -> Err({e})"));
                continue;
            }
            Some(Ok(f)) => f,
        };
        #[allow(deprecated)]
        log.push(format!("{step:?} -> Ok name={:?} size={} csize={} crc={:#x} method={} data_start={} header_start={}", f.name(), f.size(), f.compressed_size(), f.crc32(), f.compression().to_u16(), f.data_start(), f.header_start()));
        // the entry stays open across the following Read/Accessors steps until Close or the next Open
        while i < script.len() {
            match &script[i] {
                CStep::Read(n) => {
                    gate();
                    i += 1;
                    // up to n bytes, looping over short reads (how the source chunks its reads is C09's
                    // business and legitimately differs between a clone and a fresh archive)
                    let mut b = vec![0u8; *n as usize];
                    let mut got = 0usize;
                    let mut err = None;
                    if *n == 0 {
                        if let Err(e) = f.read(&mut b) {
                            err = Some(e);
                        }
                    }
                    while got < b.len() {
                        match f.read(&mut b[got..]) {
                            Ok(0) => break,
                            Ok(k) => got += k,
                            Err(e) if e.kind() == std::io::ErrorKind::Interrupted => {}
                            Err(e) => {
                                err = Some(e);
                                break;
                            }
                        }
                    }
                    log.push(format!("read({n}) -> {got} bytes crc={:#x} err={:?}", crc32(&b[..got]), err.map(|e| format!("{:?}/{e}", e.kind()))));
                }
                CStep::ReadToEnd => {
                    gate();
                    i += 1;
                    let (d, e, _) = read_all(&mut f, &[4096], 1 << 28);
                    log.push(format!("read_to_end -> {} bytes crc={:#x} err={:?}", d.len(), crc32(&d), e.map(|e| e.to_string())));
                }
                CStep::Accessors => {
                    gate();
                    i += 1;
                    let lm = f.last_modified();
                    log.push(format!("acc mode={:?} dos={:#x},{:#x} extra={:x} comment={:?} central={} data_start={} dir={}", f.unix_mode(), lm.datepart(), lm.timepart(), crc32(f.extra_data()), f.comment(), f.central_header_start(), f.data_start(), f.is_dir()));
                }
                CStep::Close => {
                    gate();
                    i += 1;
                    break;
                }
                _ => break,
            }
        }
        drop(f);
    }
    log
}

pub fn gen_scripts(r: &mut Rng, l: &Layout, handles: usize) -> Vec<Vec<CStep>> {
    let n = l.entries.len().max(1);
    (0..handles)
        .map(|_| {
            let mut s = vec![];
            for _ in 0..r.range(1, 4) {
                let k = r.usize_below(n + 1); // occasionally out of range
                let pw = match l.entries.get(k).and_then(|e| e.enc.as_ref()) {
                    Some(Enc::ZipCrypto { pw, .. }) | Some(Enc::Aes { pw, .. }) => Some(pw.clone()),
                    None => None,
                };
                s.push(match (pw, r.below(6)) {
                    (Some(p), 0..=3) => CStep::OpenDecrypt(k, p),
                    (_, 4) => CStep::OpenRaw(k),
                    (None, 3) => CStep::OpenByName(k),
                    (Some(_), _) => CStep::OpenDecrypt(k, crate::content::Hex(b"wrong".to_vec())),
                    _ => CStep::Open(k),
                });
                for _ in 0..r.below(5) {
                    s.push(match r.below(6) {
                        0 => CStep::Accessors,
                        1 => CStep::ReadToEnd,
                        2 => CStep::Read(0),
                        _ => CStep::Read(r.pickc(&[1u32, 2, 7, 64, 1000, 70000])),
                    });
                }
                if r.chance(1, 2) {
                    s.push(CStep::Close);
                }
                if r.chance(1, 6) {
                    s.push(CStep::ArchiveInfo);
                }
            }
            s
        })
        .collect()
}

/// Two handles on the SAME ZipCrypto entry: one reads it to the end with the right password, the other with a wrong
/// password that passes the one-byte check (searched here, on the built image). Whatever the first left behind in
/// state the handles share, the second must observe what it observes alone (a checksum error, as a rule).
pub fn add_password_pair(s: u64, l: &Layout, scripts: &mut Vec<Vec<CStep>>) {
    let mut r = Rng::derive(s, "password-pair");
    if scripts.len() < 2 || !r.chance(1, 5) {
        return;
    }
    let b = build(l);
    for (t, ei) in b.order.iter().enumerate() {
        let e = &l.entries[*ei];
        if let Some(Enc::ZipCrypto { pw, infozip }) = &e.enc {
            let info = &b.infos[t];
            if info.csize < 12 {
                continue;
            }
            let start = b.abs(info.data_start) as usize;
            if start + 12 > b.image.len() {
                continue;
            }
            let expect = if *infozip { (e.dos.1 >> 8) as u8 } else { (info.crc >> 24) as u8 };
            if let Some(w) = super::crypt::wrong_password(&b.image[start..start + 12], &pw.0, expect, true, s ^ t as u64) {
                let (first, second) = if r.chance(1, 2) { (0, 1) } else { (1, 0) };
                scripts[first].splice(0..0, [CStep::OpenDecrypt(t, pw.clone()), CStep::ReadToEnd, CStep::Close]);
                scripts[second].splice(0..0, [CStep::OpenDecrypt(t, crate::content::Hex(w)), CStep::ReadToEnd, CStep::Close]);
                return;
            }
        }
    }
}

pub fn gen_clone_layout(r: &mut Rng) -> Layout {
    let mut l = gen_layout(r, 5, *r.clone().pick(&[16u64, 300, 5000, 100_000]), true);
    l.trailing = 0;
    if l.entries.is_empty() {
        l.entries.push(Default::default());
    }
    for e in l.entries.iter_mut() {
        if !matches!(e.method, 0 | 8 | 12 | 93) {
            e.method = 8;
        }
    }
    l
}

impl Scenario for Clones {
    fn name(&self) -> &'static str {
        "clones"
    }
    fn total(&self, tier: Tier) -> u64 {
        match tier {
            Tier::Quick => 25_000,
            Tier::Thorough => 800_000,
        }
    }
    fn rule(&self) -> &'static str {
        "one case = an archive (all methods, plain/ZipCrypto/AES entries, ZIP64 fields, junk prefix) + 2-4 cloned handles, each with a script (open by index / by name / raw / decrypt, partial reads incl. zero-length, accessors, read to end, close) + a scheduler seed; the seeded scheduler picks, step by step, which handle executes its next script step (entries stay open across other handles' steps). Each handle's log must equal the log of its script run alone on a fresh archive. Non-trivial = at least two handles had an entry open at the same time; distinct = the interleaving itself (sequence of handle ids) mixed with the scripts' hash"
    }
    fn gen(&self, seed: u64, idx: u64, _tier: Tier) -> Value {
        let s = mix(mix(seed, fnv(b"clones")), idx);
        let mut r = Rng::derive(s, "workload");
        let l = gen_clone_layout(&mut r);
        let handles = r.range(2, 4) as usize;
        let mut scripts = gen_scripts(&mut r, &l, handles);
        add_password_pair(s, &l, &mut scripts);
        let faults = if Rng::derive(s, "swarm").chance(1, 3) { gen_handle_faults(&mut Rng::derive(s, "faults"), handles) } else { vec![] };
        // The source never fragments its reads here: how many bytes a decoder hands out before it reports a
        // corrupt stream (wrong password that passed the check byte, say) depends on how its input was chunked,
        // and a clone's reader starts a fresh chunking schedule - that is C09's subject, not a difference
        // between "interleaved" and "alone" (false alarm under VERIF_SEED=3 and 5 with short-read policies).
        let damage = if Rng::derive(s, "damage").chance(1, 4) { let mut rd = Rng::derive(s, "damage2"); Some((rd.usize_below(8), rd.next_u64() >> 8)) } else { None };
        let case = CloneCase { layout: l, scripts, sched_seed: Rng::derive(s, "schedule").next_u64(), policy: Policy::Pure, faults, damage };
        serde_json::to_value(case).unwrap_or(Value::Null)
    }
    fn run(&self, case: &Value, ctx: &mut Ctx) -> Verdict {
        let c: CloneCase = match serde_json::from_value(case.clone()) {
            Ok(c) => c,
            Err(e) => return Verdict::Harness(format!("bad case: {e}")),
        };
        let b = build(&c.layout);
        let names: Vec<String> = b.order.iter().map(|ei| {
            let e = &c.layout.entries[*ei];
            if e.utf8 { String::from_utf8_lossy(&e.name.0).into_owned() } else { cp437(&e.name.0) }
        }).collect();
        let store = shared_from(&damaged_image(&b, &c.damage));
        if c.damage.is_some() {
            ctx.probe("an_entry_was_damaged");
        }
        // solo logs: each script alone on a fresh archive
        let mut solo: Vec<Vec<String>> = vec![];
        for sc in &c.scripts {
            let mut ar = match ZipArchive::new(SimDisk::new(store.clone(), c.policy.clone())) {
                Ok(a) => a,
                Err(e) => return Verdict::Skip(format!("archive does not open: {}", zerr_pub(&e))),
            };
            match guard(|| run_script(&mut ar, sc, &names, &mut || {})) {
                Ok(l) => solo.push(l),
                Err(v) => return v,
            }
        }
        // interleaved: clones of ONE archive, one thread per handle, one step released at a time
        let mut base_disk = SimDisk::new(store.clone(), c.policy.clone());
        if c.faults.iter().any(|f| !f.is_empty()) {
            let q: std::collections::VecDeque<Policy> = (0..c.scripts.len()).map(|k| handle_policy(&c.policy, &c.faults, k)).collect();
            base_disk.clone_policies = Some(std::sync::Arc::new(std::sync::Mutex::new(q)));
            ctx.probe("a_handle_had_a_faulty_reader");
        }
        let base = match ZipArchive::new(base_disk) {
            Ok(a) => a,
            Err(e) => return Verdict::Skip(format!("archive does not open: {}", zerr_pub(&e))),
        };
        let h = c.scripts.len();
        // handles are clones of the archive - or, in half of the cases, each a clone of the previous clone
        // ("clones of clones"); in a quarter of the cases the original is gone before any handle runs
        let chain = c.sched_seed & 1 == 1;
        let mut handles: Vec<ZipArchive<SimDisk>> = vec![];
        for k in 0..h {
            let a = if chain && k > 0 { handles[k - 1].clone() } else { base.clone() };
            handles.push(a);
        }
        if chain {
            ctx.probe("handles_were_clones_of_clones");
        }
        let base = if c.sched_seed & 6 == 6 { drop(base); None } else { Some(base) };
        let mut handles = handles.into_iter();
        let mut go_tx: Vec<mpsc::Sender<()>> = vec![];
        let (done_tx, done_rx) = mpsc::channel::<(usize, bool)>(); // (handle, finished)
        let mut joins = vec![];
        for (k, sc) in c.scripts.iter().enumerate() {
            let (tx, rx) = mpsc::channel::<()>();
            go_tx.push(tx);
            // every clone gets its own cloned reader (own cursor, own policy engine instance)
            let mut ar = ForceSend(handles.next().expect("one handle per script"));
            let sc = sc.clone();
            let names = names.clone();
            let done = done_tx.clone();
            joins.push(std::thread::spawn(move || {
                let ar = &mut { ar }.0;
                // wait to be scheduled for the first step; every later step hands the baton back first
                let _ = rx.recv();
                let mut first = true;
                let mut gate = || {
                    if !first {
                        let _ = done.send((k, false));
                        let _ = rx.recv();
                    }
                    first = false;
                };
                let r = std::panic::catch_unwind(std::panic::AssertUnwindSafe(|| run_script(ar, &sc, &names, &mut gate)));
                let _ = done.send((k, true));
                r.map_err(|_| take_panic())
            }));
        }
        drop(base);
        let mut rng = Rng::new(c.sched_seed);
        let mut alive: Vec<usize> = (0..h).collect();
        let mut started = vec![false; h];
        let mut order: Vec<u8> = vec![];
        let mut open_overlap = false;
        // which handles currently hold an open entry is approximated by "has started and not finished a group"
        while !alive.is_empty() {
            let pick = alive[rng.usize_below(alive.len())];
            order.push(pick as u8);
            if started.iter().filter(|x| **x).count() >= 1 && !started[pick] {
                open_overlap = true;
            }
            started[pick] = true;
            if go_tx[pick].send(()).is_err() {
                alive.retain(|x| *x != pick);
                continue;
            }
            match done_rx.recv() {
                Ok((k, fin)) => {
                    if fin {
                        alive.retain(|x| *x != k);
                    }
                }
                Err(_) => break,
            }
        }
        let mut logs: Vec<Vec<String>> = vec![];
        for j in joins {
            match j.join() {
                Ok(Ok(l)) => logs.push(l),
                Ok(Err(p)) => {
                    let (loc, msg) = p.unwrap_or_default();
                    return viol("C20/panic", format!("a handle thread panicked at {loc}: {msg}"));
                }
                Err(_) => return Verdict::Harness("handle thread join failed".into()),
            }
        }
        ctx.io_events += order.len() as u64;
        for (k, (a, s)) in logs.iter().zip(solo.iter()).enumerate() {
            if is_faulty(&c.faults, k) {
                continue; // its own reader failed: it may see errors (never a panic); the others may not notice
            }
            if a != s {
                let at = a.iter().zip(s.iter()).position(|(x, y)| x != y).unwrap_or(a.len().min(s.len()));
                return viol(
                    "C20/handle-observation-differs",
                    format!("handle {k}, log line {at}: interleaved {:?} vs alone {:?}; interleaving {:?}; handles with a failing reader: {:?}", a.get(at), s.get(at), order.iter().take(40).collect::<Vec<_>>(), (0..c.scripts.len()).filter(|k| is_faulty(&c.faults, *k)).collect::<Vec<_>>()),
                );
            }
        }
        if open_overlap && h >= 2 {
            ctx.sig = Some(mix(fnv(&order), fnv(format!("{:?}", c.scripts).as_bytes())));
        }
        ctx.probe_n("script_steps_scheduled", order.len() as u64);
        Verdict::Pass
    }
    fn shrink(&self, case: &Value) -> Vec<Value> {
        let c: CloneCase = match serde_json::from_value(case.clone()) {
            Ok(c) => c,
            Err(_) => return vec![],
        };
        let mut out = vec![];
        if c.scripts.len() > 2 {
            for i in 0..c.scripts.len() {
                let mut v = c.scripts.clone();
                v.remove(i);
                let mut fv = c.faults.clone();
                if i < fv.len() {
                    fv.remove(i);
                }
                out.push(CloneCase { scripts: v, faults: fv, ..c.clone() });
            }
        }
        if c.faults.iter().any(|f| !f.is_empty()) {
            out.push(CloneCase { faults: vec![], ..c.clone() });
        }
        if c.damage.is_some() {
            out.push(CloneCase { damage: None, ..c.clone() });
        }
        for i in 0..c.scripts.len() {
            for j in (0..c.scripts[i].len()).rev() {
                let mut v = c.scripts.clone();
                v[i].remove(j);
                out.push(CloneCase { scripts: v, ..c.clone() });
            }
        }
        if !matches!(c.policy, Policy::Pure) {
            out.push(CloneCase { policy: Policy::Pure, ..c.clone() });
        }
        for k in 0..4u64 {
            out.push(CloneCase { sched_seed: k, ..c.clone() });
        }
        out.into_iter().filter_map(|c| serde_json::to_value(c).ok()).collect()
    }
}

// =============================================================================================
// C20-B: the same scripts, one shuttle thread per handle; shuttle's seeded scheduler owns the
// interleaving at every source I/O call and (through the guarded hook in zip's types.rs) at every
// load/store of the shared `data_start` atomics. Only the binary built with
// `--cfg zip_rs_zip_verif` (shadow manifest, /verif/sim-shuttle) can run it.

#[derive(Serialize, Deserialize, Clone, Debug, PartialEq)]
pub struct ShuttleCase {
    pub layout: Layout,
    pub scripts: Vec<Vec<CStep>>,
    pub sched_seed: u64,
    /// false: uniform random scheduler; true: PCT with the given depth
    pub pct: Option<u32>,
    /// as in part A: failures of individual handles' own readers
    #[serde(default)]
    pub faults: Vec<Vec<(u64, Decision)>>,
    #[serde(default)]
    pub damage: Option<(usize, u64)>,
}

pub struct ClonesShuttle;

impl Scenario for ClonesShuttle {
    fn name(&self) -> &'static str {
        "clones_shuttle"
    }
    fn total(&self, tier: Tier) -> u64 {
        match tier {
            Tier::Quick => 20_000,
            Tier::Thorough => 600_000,
        }
    }
    fn rule(&self) -> &'static str {
        "one case = an archive + 2-4 cloned handles with scripts (as in part A), each handle on its own shuttle thread; one seeded shuttle schedule (uniform random or PCT) decides every context switch, with a scheduling point before every read/seek of every handle's source and at every load/store of the shared data_start atomic. Each handle's log must equal its solo log. Non-trivial = at least two handle threads ran; distinct = (scripts hash, scheduler seed and kind)"
    }
    fn worker_exe(&self) -> Option<String> {
        if cfg!(zip_rs_zip_verif) {
            None
        } else {
            Some(format!("{}/target/shuttle/release/zipsim", crate::runner::verif_root_real()))
        }
    }
    fn gen(&self, seed: u64, idx: u64, _tier: Tier) -> Value {
        let s = mix(mix(seed, fnv(b"clones_shuttle")), idx);
        let mut r = Rng::derive(s, "workload");
        let mut l = gen_clone_layout(&mut r);
        // keep the decoders cheap under the model scheduler
        for e in l.entries.iter_mut() {
            if e.content.len() > 20_000 {
                e.content = crate::content::Content::Rand { len: 20_000, seed: 3 };
            }
        }
        let handles = r.range(2, 4) as usize;
        let mut scripts = gen_scripts(&mut r, &l, handles);
        add_password_pair(s, &l, &mut scripts);
        let faults = if Rng::derive(s, "swarm").chance(1, 3) { gen_handle_faults(&mut Rng::derive(s, "faults"), handles) } else { vec![] };
        let damage = if Rng::derive(s, "damage").chance(1, 4) { let mut rd = Rng::derive(s, "damage2"); Some((rd.usize_below(8), rd.next_u64() >> 8)) } else { None };
        let case = ShuttleCase { layout: l, scripts, sched_seed: Rng::derive(s, "schedule").next_u64(), pct: if r.chance(1, 2) { Some(r.range(1, 5) as u32) } else { None }, faults, damage };
        serde_json::to_value(case).unwrap_or(Value::Null)
    }
    #[cfg(not(zip_rs_zip_verif))]
    fn run(&self, _case: &Value, _ctx: &mut Ctx) -> Verdict {
        Verdict::Harness("clones_shuttle needs the binary built with --cfg zip_rs_zip_verif (bin/setup builds it)".into())
    }
    #[cfg(zip_rs_zip_verif)]
    fn run(&self, case: &Value, ctx: &mut Ctx) -> Verdict {
        use shuttle::scheduler::{PctScheduler, RandomScheduler};
        use std::sync::{Arc, Mutex};
        let c: ShuttleCase = match serde_json::from_value(case.clone()) {
            Ok(c) => c,
            Err(e) => return Verdict::Harness(format!("bad case: {e}")),
        };
        let b = build(&c.layout);
        let names: Vec<String> = b
            .order
            .iter()
            .map(|ei| {
                let e = &c.layout.entries[*ei];
                if e.utf8 {
                    String::from_utf8_lossy(&e.name.0).into_owned()
                } else {
                    cp437(&e.name.0)
                }
            })
            .collect();
        let store = shared_from(&damaged_image(&b, &c.damage));
        let outcome: Arc<Mutex<Option<Result<u64, String>>>> = Arc::new(Mutex::new(None));
        let out2 = outcome.clone();
        let scripts = c.scripts.clone();
        let faults = c.faults.clone();
        let chain = c.sched_seed & 1 == 1;
        let body = move || {
            let hook: Arc<dyn Fn() + Send + Sync> = Arc::new(|| shuttle::thread::sleep(std::time::Duration::from_secs(0)));
            let mk = || {
                let mut d = SimDisk::new(store.clone(), Policy::Pure);
                d.yield_hook = Some(hook.clone());
                d
            };
            // solo logs (inside the model execution: the crate's atomics are shuttle's in this build)
            let mut solo = vec![];
            for sc in &scripts {
                match ZipArchive::new(mk()) {
                    Ok(mut ar) => solo.push(run_script(&mut ar, sc, &names, &mut || {})),
                    Err(e) => {
                        *out2.lock().unwrap() = Some(Err(format!("SKIP archive does not open: {}", zerr_pub(&e))));
                        return;
                    }
                }
            }
            let mut base_disk = mk();
            if faults.iter().any(|f| !f.is_empty()) {
                let q: std::collections::VecDeque<Policy> = (0..scripts.len()).map(|k| handle_policy(&Policy::Pure, &faults, k)).collect();
                base_disk.clone_policies = Some(Arc::new(Mutex::new(q)));
            }
            let base = match ZipArchive::new(base_disk) {
                Ok(a) => a,
                Err(_) => return,
            };
            let mut hs = vec![];
            let mut handles: Vec<ZipArchive<SimDisk>> = vec![];
            for k in 0..scripts.len() {
                let a = if chain && k > 0 { handles[k - 1].clone() } else { base.clone() };
                handles.push(a);
            }
            let mut handles = handles.into_iter();
            for sc in scripts.iter() {
                let ar = ForceSend(handles.next().expect("one handle per script"));
                let sc = sc.clone();
                let names = names.clone();
                hs.push(shuttle::thread::spawn(move || {
                    let mut ar = { ar }.0;
                    run_script(&mut ar, &sc, &names, &mut || {})
                }));
            }
            drop(base);
            let mut steps = 0u64;
            for (k, h) in hs.into_iter().enumerate() {
                let log = match h.join() {
                    Ok(l) => l,
                    Err(_) => {
                        *out2.lock().unwrap() = Some(Err(format!("handle {k} panicked")));
                        return;
                    }
                };
                steps += log.len() as u64;
                if !is_faulty(&faults, k) && log != solo[k] {
                    let at = log.iter().zip(solo[k].iter()).position(|(x, y)| x != y).unwrap_or(log.len().min(solo[k].len()));
                    *out2.lock().unwrap() = Some(Err(format!("handle {k}, log line {at}: concurrent {:?} vs alone {:?}", log.get(at), solo[k].get(at))));
                    return;
                }
            }
            *out2.lock().unwrap() = Some(Ok(steps));
        };
        let mut cfg = shuttle::Config::new();
        cfg.stack_size = 1 << 20;
        cfg.failure_persistence = shuttle::FailurePersistence::None;
        cfg.max_steps = shuttle::MaxSteps::FailAfter(5_000_000);
        let r = std::panic::catch_unwind(std::panic::AssertUnwindSafe(|| match c.pct {
            Some(d) => {
                shuttle::Runner::new(PctScheduler::new_from_seed(c.sched_seed, d as usize, 1), cfg).run(body);
            }
            None => {
                shuttle::Runner::new(RandomScheduler::new_from_seed(c.sched_seed, 1), cfg).run(body);
            }
        }));
        if r.is_err() {
            let (loc, msg) = take_panic().unwrap_or_default();
            return viol("C20/panic-under-schedule", format!("panic at {loc}: {msg} (shuttle seed {}, scheduler {:?})", c.sched_seed, c.pct));
        }
        let o = outcome.lock().unwrap().take();
        match o {
            Some(Ok(steps)) => {
                ctx.io_events += steps;
                ctx.sig = Some(mix(fnv(format!("{:?}", c.scripts).as_bytes()), mix(c.sched_seed, c.pct.unwrap_or(0) as u64)));
                ctx.probe(if c.pct.is_some() { "pct_schedules" } else { "random_schedules" });
                if c.faults.iter().any(|f| !f.is_empty()) {
                    ctx.probe("a_handle_had_a_faulty_reader");
                }
                Verdict::Pass
            }
            Some(Err(e)) if e.starts_with("SKIP") => Verdict::Skip(e),
            Some(Err(e)) => viol("C20/handle-observation-differs", format!("{e} (shuttle seed {}, scheduler {:?})", c.sched_seed, c.pct)),
            None => Verdict::Skip("execution did not finish".into()),
        }
    }
    fn shrink(&self, case: &Value) -> Vec<Value> {
        let c: ShuttleCase = match serde_json::from_value(case.clone()) {
            Ok(c) => c,
            Err(_) => return vec![],
        };
        let mut out = vec![];
        if c.scripts.len() > 2 {
            for i in 0..c.scripts.len() {
                let mut v = c.scripts.clone();
                v.remove(i);
                let mut fv = c.faults.clone();
                if i < fv.len() {
                    fv.remove(i);
                }
                out.push(ShuttleCase { scripts: v, faults: fv, ..c.clone() });
            }
        }
        if c.faults.iter().any(|f| !f.is_empty()) {
            out.push(ShuttleCase { faults: vec![], ..c.clone() });
        }
        if c.damage.is_some() {
            out.push(ShuttleCase { damage: None, ..c.clone() });
        }
        for i in 0..c.scripts.len() {
            for j in (0..c.scripts[i].len()).rev() {
                let mut v = c.scripts.clone();
                v[i].remove(j);
                out.push(ShuttleCase { scripts: v, ..c.clone() });
            }
        }
        for k in 0..6u64 {
            out.push(ShuttleCase { sched_seed: k, ..c.clone() });
        }
        out.into_iter().filter_map(|c| serde_json::to_value(c).ok()).collect()
    }
}
