//! Generators and helpers shared by the scenarios.

use crate::content::{Content, Hex};
use crate::indep::{self, build::Layout, Src};
use crate::model::{SrcEntry, RESERVED_IDS};
use crate::ops::*;
use crate::rng::Rng;
use crate::simio::{ioh, shared_empty, shared_from, Policy, Shared};
use serde::{Deserialize, Serialize};

#[derive(Serialize, Deserialize, Clone, Debug, PartialEq)]
pub enum Source {
    Prog(Vec<Op>),
    Built(Layout),
}

impl Source {
    pub fn image(&self) -> Vec<u8> {
        match self {
            Source::Prog(ops) => {
                let store = shared_empty();
                let env = ExecEnv { store: store.clone(), start_pos: 0, sink_io: ioh(Policy::Pure), sources: vec![], src_io: ioh(Policy::Pure), stop_on_err: false, final_finish: true, pre_started: false };
                let _ = run_program(ops, &env);
                crate::simio::image_of(&store)
            }
            Source::Built(l) => indep::build::build(l).image,
        }
    }
    /// the archive on a simulated disk (sparse when an independently built layout carries a hole)
    pub fn store(&self) -> Shared {
        match self {
            Source::Built(l) if l.hole > 0 => indep::build::build(l).store(),
            _ => shared_from(&self.image()),
        }
    }
}

/// what the independent parser says about every entry of a source archive
pub fn source_entries(img: &[u8]) -> Vec<SrcEntry> {
    let mut out = vec![];
    // sources may carry trailing garbage: locate the end record like the builder did (last PK56 whose
    // comment fits), falling back to the strict search
    let p = match indep::parse(img) {
        Ok(p) => p,
        Err(_) => return out,
    };
    for (i, c) in p.centrals.iter().enumerate() {
        let l = match &p.locals[i] {
            Ok(l) => l,
            Err(_) => continue,
        };
        let raw = img.fetch(l.data_start, c.csize as usize);
        let encrypted = c.flags & 1 != 0;
        let plain = if encrypted {
            None
        } else {
            match indep::decode(c.method, &raw, c.usize as usize + 16) {
                Some(Ok(p)) => Some(p),
                _ => None,
            }
        };
        let name = if c.flags & 0x800 != 0 { String::from_utf8_lossy(&c.name).into_owned() } else { cp437(&c.name) };
        let sys = (c.made_by >> 8) as u8;
        let mode = if c.eattr == 0 {
            None
        } else if sys == 3 {
            Some(c.eattr >> 16)
        } else if sys == 0 {
            let mut m = if c.eattr & 0x10 != 0 { 0o40775 } else { 0o100664 };
            if c.eattr & 1 != 0 {
                m &= 0o555;
            }
            Some(m)
        } else {
            None
        };
        out.push(SrcEntry { name, method: c.method, crc: c.crc, csize: c.csize, usize: c.usize, dos: (c.date, c.time), mode, raw, plain, encrypted });
    }
    out
}

/// CP437 decoding (high half from the Unicode consortium table), independent of the crate's table
pub fn cp437(b: &[u8]) -> String {
    const HI: &str = "ÇüéâäàåçêëèïîìÄÅÉæÆôöòûùÿÖÜ¢£¥₧ƒáíóúñÑªº¿⌐¬½¼¡«»░▒▓│┤╡╢╖╕╣║╗╝╜╛┐└┴┬├─┼╞╟╚╔╩╦╠═╬╧╨╤╥╙╘╒╓╫╪┘┌█▄▌▐▀αßΓπΣσµτΦΘΩδ∞φε∩≡±≥≤⌠⌡÷≈°∙·√ⁿ²■\u{a0}";
    let hi: Vec<char> = HI.chars().collect();
    b.iter().map(|x| if *x < 0x80 { *x as char } else { hi[(*x - 0x80) as usize] }).collect()
}

pub fn gen_policy_short(r: &mut Rng) -> Policy {
    match r.below(8) {
        0..=2 => Policy::Pure,
        3 => Policy::Uniform(r.pickc(&[1u64, 2, 3, 7, 64])),
        4 => Policy::BufLike { cap: r.pickc(&[1u64, 5, 16, 512, 8192]) },
        5 => Policy::Prng { seed: r.next_u64(), short_pm: 1000 },
        6 => Policy::Prng { seed: r.next_u64(), short_pm: 100 },
        _ => Policy::Prng { seed: r.next_u64(), short_pm: 500 },
    }
}

pub fn gen_bufs(r: &mut Rng) -> Vec<u32> {
    match r.below(6) {
        0 => vec![],
        1 => vec![1],
        2 => vec![0, 1, 0, 7],
        3 => (0..r.range(1, 5)).map(|_| r.pickc(&[0u32, 1, 2, 3, 7, 16, 17, 4096, 65536])).collect(),
        4 => vec![r.range(1, 300) as u32],
        _ => vec![32768],
    }
}

pub fn free_id(r: &mut Rng) -> u16 {
    loop {
        let id = match r.below(4) {
            0 => 0xbeef,
            1 => 0xcafe,
            _ => r.range(32, 65535) as u16,
        };
        if id > 31 && !RESERVED_IDS.contains(&id) {
            return id;
        }
    }
}

/// well-formed unreserved extra records
pub fn gen_extra_valid(r: &mut Rng, max_total: usize) -> Vec<u8> {
    let mut v = vec![];
    for _ in 0..r.below(4) {
        let n = match r.below(10) {
            0 => 0,
            9 => r.below(3000) as usize,
            _ => r.below(24) as usize,
        };
        if v.len() + 4 + n > max_total {
            break;
        }
        v.extend_from_slice(&free_id(r).to_le_bytes());
        v.extend_from_slice(&(n as u16).to_le_bytes());
        v.extend_from_slice(&r.bytes(n));
    }
    v
}

#[derive(Clone, Debug)]
pub struct GenCfg {
    pub max_entries: u64,
    pub max_content: u64,
    pub methods: Vec<u16>,
    pub extra: bool,
    pub aligned: bool,
    pub enc: bool,
    pub n_sources: usize,
    pub src_lens: Vec<usize>,
    pub append: bool,
    pub long_names: bool,
    pub comment_max: u64,
    pub misc_ops: bool,
}

pub fn gen_file_body(r: &mut Rng, cfg: &GenCfg, ops: &mut Vec<Op>) {
    for _ in 0..r.weighted(&[(2, 0u64), (6, 1), (2, 2), (1, 3)]) {
        let c = Content::gen(r, cfg.max_content);
        let split = gen_split(r, c.len());
        ops.push(Op::Write { c, split });
        if cfg.misc_ops && r.chance(1, 12) {
            ops.push(Op::Flush);
        }
    }
}

/// legal writer programs over the alphabet enabled in cfg
pub fn gen_program(r: &mut Rng, cfg: &GenCfg) -> Vec<Op> {
    let mut ops: Vec<Op> = vec![];
    let mut used: Vec<String> = vec![];
    let n = match r.below(12) {
        0 => 0,
        1..=8 => r.range(1, cfg.max_entries.min(4)),
        _ => r.range(1, cfg.max_entries),
    };
    // swarm: which entry kinds exist in this run
    let k_dir = r.chance(7, 10);
    let k_sym = r.chance(5, 10);
    let k_extra = cfg.extra && r.chance(7, 10);
    let k_al = cfg.aligned && r.chance(6, 10);
    let k_enc = cfg.enc && r.chance(5, 10);
    let k_raw = cfg.n_sources > 0 && r.chance(7, 10);
    let k_app = cfg.append && r.chance(4, 10);
    for _ in 0..n {
        if cfg.misc_ops && r.chance(1, 8) {
            let n = gen_comment_len(r, cfg.comment_max);
            ops.push(Op::SetComment { c: Hex(gen_comment(r, n as usize)) });
        }
        let mut name = gen_name(r, &used, cfg.long_names);
        let mut o = gen_opts(r, &cfg.methods);
        let kind = r.below(20);
        if cfg.misc_ops && r.chance(1, 12) && !name.contains('\0') && !name.contains('\\') && name.len() < 200 && (kind <= 1 || kind >= 9) {
            // the path-taking calls: dress the name up with components the call must drop
            let p = match r.below(5) {
                0 => format!("/{name}"),
                1 => format!("./{name}"),
                2 => format!("../{name}"),
                3 => format!("x/../{name}/."),
                _ => format!("{name}/"),
            };
            name = path_components_joined(&p);
            o.via_path = Some(p);
        }
        used.push(name.clone());
        // encryption is an option of EVERY entry-creating call (one FileOptions value reused for a whole
        // tree): directories, symlinks, aligned and extra-data entries get a password now and then too
        if k_enc && kind <= 6 && r.chance(1, 5) {
            o.password = Some(Hex(match r.below(3) {
                0 => b"password".to_vec(),
                1 => vec![0, 0x80, 0xff],
                _ => r.rbytes(0, 12),
            }));
        }
        match kind {
            0 | 1 if k_dir => ops.push(Op::AddDir { name, o }),
            2 if k_sym => ops.push(Op::AddSymlink { name, target: gen_name(r, &used, false), o }),
            3 | 4 if k_extra => {
                let local = gen_extra_valid(r, 3000);
                ops.push(Op::StartExtra { name, o });
                if !local.is_empty() || r.chance(1, 2) {
                    ops.push(Op::Write { c: Content::Lit(Hex(local.clone())), split: gen_split(r, local.len() as u64) });
                }
                if r.chance(1, 2) {
                    ops.push(Op::EndLocal);
                    let central = gen_extra_valid(r, 3000);
                    ops.push(Op::Write { c: Content::Lit(Hex(central)), split: vec![] });
                }
                if r.chance(9, 10) {
                    ops.push(Op::EndExtra);
                    gen_file_body(r, cfg, &mut ops);
                }
            }
            5 | 6 if k_al => {
                let align = if r.chance(1, 2) { r.pickc(&[0u16, 1, 2, 3, 4, 8, 64, 512, 4096, 32768, 65535]) } else { r.below(65536) as u16 };
                ops.push(Op::StartAligned { name, o, align });
                gen_file_body(r, cfg, &mut ops);
            }
            7 | 8 if k_enc => {
                let mut o = o;
                let pw = match r.below(5) {
                    0 => vec![],
                    1 => b"password".to_vec(),
                    2 => {
                        let n = r.range(1, 16) as usize;
                        r.bytes(n)
                    }
                    3 => r.bytes(1024),
                    _ => vec![0, 0x80, 0xff],
                };
                o.password = Some(Hex(pw));
                ops.push(Op::StartFile { name, o });
                gen_file_body(r, cfg, &mut ops);
            }
            9 | 10 if k_raw => {
                let src = r.usize_below(cfg.n_sources);
                let nent = cfg.src_lens.get(src).copied().unwrap_or(0);
                if nent > 0 {
                    ops.push(Op::RawCopy { src, how: r.below(3) as u8, index: r.usize_below(nent), rename: if r.chance(1, 2) { Some(gen_name(r, &used, false)) } else { None } });
                }
            }
            11 if k_app => {
                if r.chance(1, 2) {
                    ops.push(Op::Finish);
                }
                ops.push(Op::Append);
            }
            _ => {
                ops.push(Op::StartFile { name, o });
                gen_file_body(r, cfg, &mut ops);
            }
        }
    }
    if cfg.misc_ops && r.chance(1, 6) {
        let n = if r.chance(1, 4) { gen_comment_len(r, cfg.comment_max) } else { r.range(0, cfg.comment_max.min(300)) };
        ops.push(Op::SetComment { c: Hex(gen_comment(r, n as usize)) });
    }
    ops
}

/// Scenarios that re-execute one program hundreds of times (one run per I/O call index) cannot afford
/// zstd's top levels: every compressor start at level 17+ clears a match state of hundreds of MiB. The
/// level stays valid and compressing; only the cost changes (C01/C12 keep the whole range).
pub fn tame_levels(ops: &mut [Op]) {
    for op in ops.iter_mut() {
        match op {
            Op::StartFile { o, .. } | Op::StartAligned { o, .. } | Op::StartExtra { o, .. } | Op::AddDir { o, .. } | Op::AddSymlink { o, .. } => {
                if o.method == 93 {
                    if let Some(l) = o.level {
                        if l > 9 && l <= 22 {
                            o.level = Some(3 + l % 7);
                        }
                    }
                }
            }
            _ => {}
        }
    }
}

/// comment lengths: mostly short; when long comments are allowed, the top of the 16-bit range (where the
/// end record leaves the last 64 KiB of the file) is drawn on purpose, not by luck
pub fn gen_comment_len(r: &mut Rng, max: u64) -> u64 {
    if max < 1000 {
        return if r.chance(1, 20) { r.range(0, max) } else { r.range(0, max.min(40)) };
    }
    match r.below(40) {
        0 => max,
        1 => max - r.below(48),
        2 => 512 * r.range(1, max / 512) - r.below(8),
        3 => r.range(0, max),
        _ => r.range(0, 40),
    }
}

pub fn gen_comment(r: &mut Rng, n: usize) -> Vec<u8> {
    let mut v = if r.chance(1, 2) { r.bytes(n) } else { vec![b'c'; n] };
    // comments must not embed record signatures (format-inherent ambiguity): break up 'PK'
    for i in 1..v.len() {
        if v[i - 1] == b'P' && v[i] == b'K' {
            v[i] = b'k';
        }
    }
    v
}

pub fn sources_to_stores(srcs: &[Source]) -> (Vec<Shared>, Vec<Vec<SrcEntry>>, Vec<Vec<u8>>) {
    let mut stores = vec![];
    let mut infos = vec![];
    let mut imgs = vec![];
    for s in srcs {
        let img = s.image();
        infos.push(source_entries(&img));
        stores.push(shared_from(&img));
        imgs.push(img);
    }
    (stores, infos, imgs)
}

/// a small source archive program for raw copies
pub fn gen_source(r: &mut Rng) -> Source {
    if r.chance(1, 2) {
        let cfg = GenCfg { max_entries: 4, max_content: 3000, methods: METHODS.to_vec(), extra: false, aligned: false, enc: false, n_sources: 0, src_lens: vec![], append: false, long_names: false, comment_max: 20, misc_ops: false };
        let mut ops = vec![];
        // at least one entry
        let n = r.range(1, 4);
        let mut used = vec![];
        for _ in 0..n {
            let name = gen_name(r, &used, false);
            used.push(name.clone());
            ops.push(Op::StartFile { name, o: gen_opts(r, &cfg.methods) });
            gen_file_body(r, &cfg, &mut ops);
        }
        Source::Prog(ops)
    } else {
        Source::Built(gen_layout(r, 4, 3000, false))
    }
}

/// builder layouts (C03 space); `hostile_ok` unused here, kept simple
pub fn gen_layout(r: &mut Rng, max_entries: u64, max_content: u64, with_enc: bool) -> Layout {
    use crate::indep::build::*;
    let n = match r.below(10) {
        0 => 0,
        1..=7 => r.range(1, max_entries.min(4)),
        _ => r.range(1, max_entries),
    };
    let mut l = Layout::default();
    let sw_dd = r.chance(1, 2);
    let sw_z64 = r.chance(1, 2);
    let sw_extra = r.chance(1, 2);
    let sw_gap = r.chance(1, 3);
    let sw_unsup = r.chance(1, 4);
    for i in 0..n as usize {
        let (name, utf8) = gen_bname(r, i);
        let mut e = BEntry { name, utf8, ..Default::default() };
        e.method = if sw_unsup && r.chance(1, 3) { r.pickc(&[1u16, 9, 14, 95, 98]) } else { r.pickc(&METHODS) };
        e.level = r.range(1, 9) as i32;
        if e.method == 8 && r.chance(1, 4) {
            e.stored_blocks = Some(r.pickc(&[1u32, 7, 100, 65535]));
        }
        e.content = Content::gen(r, max_content);
        e.dos = (r.below(65536) as u16, r.below(65536) as u16);
        e.sys = r.pickc(&[3u8, 3, 0, 0, 7, 19]);
        e.ver = r.pickc(&[20u8, 10, 45, 63]);
        e.eattr = match r.below(5) {
            0 => 0,
            1 => (r.below(1 << 16) as u32) << 16,
            2 => r.below(256) as u32,
            3 => ((0o100000 | r.below(512)) as u32) << 16 | r.below(64) as u32,
            _ => r.next_u64() as u32,
        };
        e.iattr = r.below(4) as u16;
        if sw_dd && r.chance(1, 2) {
            e.dd = r.range(1, 4) as u8;
        }
        if sw_z64 {
            e.z64_local = r.chance(1, 3);
            if r.chance(1, 2) {
                e.z64_central = r.below(16) as u8;
            }
            e.z64_first = r.chance(1, 2);
        }
        if sw_extra {
            e.extra_local = Hex(gen_extra(r, 2));
            e.extra_central = Hex(gen_extra(r, 2));
            if r.chance(1, 3) {
                let n = r.below(30) as usize;
                e.comment = Hex(gen_comment(r, n));
            }
        }
        if sw_gap && r.chance(1, 3) {
            e.gap_before = r.below(40) as u32;
        }
        if r.chance(1, 60) {
            // long name and/or large local extra: the local header's variable part may exceed 64 KiB
            let nl = r.pickc(&[255usize, 30000, 40000, 65535]);
            e.name = Hex(vec![b'L'; nl]);
            e.utf8 = false;
            let el = r.pickc(&[0usize, 100, 30000, 65531 - 4]);
            if el > 0 {
                let mut x = 0xbeefu16.to_le_bytes().to_vec();
                x.extend_from_slice(&(el as u16).to_le_bytes());
                x.extend_from_slice(&vec![0x11u8; el]);
                e.extra_local = Hex(x);
            }
        }
        if matches!(e.method, 8 | 12) && r.chance(1, 25) {
            e.trailing_pad = r.pickc(&[1u32, 10, 300, 40_000]);
        }
        if r.chance(1, 8) {
            // the compression-effort hint (Info-ZIP -1 / -9, 7-Zip -mx): bits a reader has no business with
            e.gp_hint = r.pickc(&[2u16, 4, 6]);
        }
        if with_enc && r.chance(1, 3) {
            e.enc = Some(if r.chance(1, 2) {
                Enc::ZipCrypto { pw: Hex(r.rbytes(0, 8)), infozip: r.chance(1, 2) }
            } else {
                Enc::Aes { pw: Hex(r.rbytes(0, 8)), strength: r.range(1, 3) as u8, version: r.range(1, 2) as u8, salt_seed: r.next_u64() }
            });
        }
        // unsupported methods carry opaque bytes: builder stores content as-is under that id
        l.entries.push(e);
    }
    let cn = if r.chance(1, 2) { 0 } else { r.below(60) as usize };
    l.comment = Hex(gen_comment(r, cn));
    if r.chance(1, 3) {
        l.prefix = match r.below(6) {
            0 => r.below(65536) as u32,
            // just below / at / above a multiple of a power of two: readers that search in blocks meet their
            // block boundaries inside a record signature only for such lengths, whatever the block size
            1 => {
                let j = r.range(6, 16);
                let k = r.range(1, (65536u64 >> j).max(1));
                ((k << j) as i64 - 4 + r.below(7) as i64).clamp(0, 65535) as u32
            }
            _ => r.below(200) as u32,
        };
        l.prefix_seed = r.next_u64();
    }
    l.force_z64_end = sw_z64 && r.chance(1, 3);
    if l.force_z64_end && r.chance(1, 2) {
        l.z64_end_real = r.range(1, 7) as u8;
    }
    if !l.force_z64_end && r.chance(1, 5) {
        l.trailing = r.below(100) as u32;
    }
    if n > 1 && r.chance(1, 4) {
        l.central_rot = r.below(n) as u32;
        l.central_rev = r.chance(1, 2);
    }
    if sw_gap && r.chance(1, 4) {
        l.gap_before_cd = r.below(50) as u32;
    }
    l
}

/// The end record may sit anywhere in the last 22 + 65535 bytes of the file: long comments, long trailing
/// garbage (only without ZIP64 records, as C03 says) and the exact limits. Kept out of `gen_layout` because
/// scenarios that enumerate every I/O call index would pay for a 65 KiB backward search in every sub-case.
pub fn lengthen_tail(r: &mut Rng, l: &mut Layout) {
    let total = match r.below(8) {
        0 => 65535,
        1 => 65535 - r.below(48),
        2 => r.below(2048),
        3 => 512 * r.range(1, 127) - r.below(8),
        _ => r.below(65536),
    } as usize;
    let clen = if l.force_z64_end {
        total
    } else {
        match r.below(4) {
            0 => total,
            1 => l.comment.0.len().min(total),
            _ => r.below(total as u64 + 1) as usize,
        }
    };
    l.comment = Hex(gen_comment(r, clen));
    l.trailing = if l.force_z64_end { 0 } else { (total - clen) as u32 };
}

/// which source entry a raw copy resolves to: by_name returns the last entry carrying that name
pub fn resolve_src(infos: &[Vec<SrcEntry>], si: usize, idx: usize, how: u8) -> Option<SrcEntry> {
    let v = infos.get(si)?;
    let e = v.get(idx)?;
    if how == 1 {
        v.iter().rev().find(|x| x.name == e.name).cloned()
    } else {
        Some(e.clone())
    }
}

/// simplifications of a builder layout (for shrinking)
pub fn shrink_layout(l: &Layout) -> Vec<Layout> {
    use crate::indep::build::BEntry;
    let mut out = vec![];
    for i in (0..l.entries.len()).rev() {
        let mut x = l.clone();
        x.entries.remove(i);
        out.push(x);
    }
    let simple = |x: &mut Layout| {
        x.prefix = 0;
        x.trailing = 0;
        x.central_rot = 0;
        x.central_rev = false;
        x.gap_before_cd = 0;
    };
    {
        let mut x = l.clone();
        simple(&mut x);
        if x != *l {
            out.push(x);
        }
    }
    if l.force_z64_end {
        let mut x = l.clone();
        x.force_z64_end = false;
        out.push(x);
    }
    if l.hole > 0 {
        let mut x = l.clone();
        x.hole = 0;
        out.push(x);
    }
    if !l.comment.0.is_empty() {
        let mut x = l.clone();
        x.comment = Hex(vec![]);
        out.push(x);
    }
    for i in 0..l.entries.len() {
        let e = &l.entries[i];
        let d = BEntry { name: e.name.clone(), content: e.content.clone(), enc: e.enc.clone(), method: e.method, ..Default::default() };
        if d != *e {
            let mut x = l.clone();
            x.entries[i] = d;
            out.push(x);
        }
        let fields: Vec<Box<dyn Fn(&mut BEntry)>> = vec![
            Box::new(|e| e.method = 0),
            Box::new(|e| e.dd = 0),
            Box::new(|e| e.z64_local = false),
            Box::new(|e| e.z64_central = 0),
            Box::new(|e| e.extra_local = Hex(vec![])),
            Box::new(|e| e.extra_central = Hex(vec![])),
            Box::new(|e| e.comment = Hex(vec![])),
            Box::new(|e| e.gap_before = 0),
            Box::new(|e| e.enc = None),
            Box::new(|e| e.stored_blocks = None),
            Box::new(|e| e.trailing_pad = 0),
            Box::new(|e| e.central_name = None),
            Box::new(|e| e.name = Hex(b"a".to_vec())),
            Box::new(|e| e.eattr = 0o100644 << 16),
            Box::new(|e| e.sys = 3),
            Box::new(|e| e.dos = (0x21, 0)),
        ];
        for f in fields {
            let mut x = l.clone();
            f(&mut x.entries[i]);
            if x != *l {
                out.push(x);
            }
        }
        for c2 in e.content.shrinks() {
            let mut x = l.clone();
            x.entries[i].content = c2;
            out.push(x);
        }
    }
    out
}


/// Names that are long and not ASCII: accessors that cut, pad or index decoded names meet character boundaries
/// at every offset near 255 / 256 / 1024 / 4096 (components and whole names), in UTF-8-flagged and in CP437 names
/// (each high byte decodes to a 2- or 3-byte character), with invalid UTF-8, NULs and both separators mixed in.
pub fn awkward_long_name(r: &mut Rng) -> (Vec<u8>, bool) {
    let boundary = r.pickc(&[255usize, 256, 255, 1024, 4096, 127, 64]);
    let lead = (boundary as i64 - 3 + r.below(5) as i64).max(0) as usize;
    let utf8 = r.chance(1, 2);
    let mut v: Vec<u8> = vec![];
    // leading ASCII run so that the multi-byte characters start right around the boundary
    let lead_bytes = if utf8 { lead } else { lead / r.pickc(&[1usize, 2, 3]) };
    for i in 0..lead_bytes {
        v.push(b'a' + (i % 26) as u8);
    }
    let tail = r.range(1, 40) as usize;
    if utf8 {
        for _ in 0..tail {
            match r.below(5) {
                0 => v.extend_from_slice("\u{e9}".as_bytes()),
                1 => v.extend_from_slice("\u{65e5}".as_bytes()),
                2 => v.extend_from_slice("\u{1f600}".as_bytes()),
                3 => v.push(0xff), // invalid: replaced by U+FFFD (3 bytes) when decoded
                _ => v.push(b'z'),
            }
        }
    } else {
        for _ in 0..tail {
            v.push(if r.chance(1, 4) { b'z' } else { 0x80 + r.below(128) as u8 });
        }
    }
    match r.below(6) {
        0 => {
            // as one component among others
            let mut w = b"dir/".to_vec();
            w.extend_from_slice(&v);
            w.extend_from_slice(b"/leaf");
            v = w;
        }
        1 => v.push(b'/'),
        2 => {
            let at = r.usize_below(v.len().max(1));
            v.insert(at, b'\\');
        }
        3 => {
            let at = r.usize_below(v.len().max(1));
            v.insert(at, 0);
        }
        _ => {}
    }
    (v, utf8)
}


/// Extra-field records as real archivers write them, with the internal structure a parser that interprets them
/// would check (version bytes, the CRC-32 of the header's own name / comment, element counts, tags and sizes):
/// Info-ZIP Unicode Path / Comment, extended timestamp, old and new Unix records, ASi Unix, NTFS times, Android
/// alignment, the jar marker. `lie` additionally makes ONE record claim a length other than its body's (0..5,
/// one less, one more, far too much) while the bytes of the full body stay in place behind the header.
pub fn real_world_records(r: &mut Rng, name_raw: &[u8], comment_raw: &[u8], lie: bool) -> Vec<u8> {
    use crate::content::crc32;
    let mut recs: Vec<(u16, Vec<u8>)> = vec![];
    let utf8 = |raw: &[u8]| -> Vec<u8> { cp437(raw).into_bytes() };
    for _ in 0..r.range(1, 3) {
        let (id, body): (u16, Vec<u8>) = match r.below(10) {
            0 | 1 => {
                let mut b = vec![1u8];
                b.extend_from_slice(&crc32(name_raw).to_le_bytes());
                b.extend_from_slice(&utf8(name_raw));
                (0x7075, b)
            }
            2 => {
                let mut b = vec![1u8];
                b.extend_from_slice(&crc32(comment_raw).to_le_bytes());
                b.extend_from_slice(&utf8(comment_raw));
                (0x6375, b)
            }
            3 => {
                let flags = r.pickc(&[1u8, 3, 7]);
                let mut b = vec![flags];
                for _ in 0..flags.count_ones() {
                    b.extend_from_slice(&(r.below(1 << 31) as u32).to_le_bytes());
                }
                (0x5455, b)
            }
            4 => {
                let mut b = vec![1u8, 4];
                b.extend_from_slice(&(r.below(70000) as u32).to_le_bytes());
                b.push(4);
                b.extend_from_slice(&(r.below(70000) as u32).to_le_bytes());
                (0x7875, b)
            }
            5 => {
                let mut b = vec![0u8; 4];
                b.extend_from_slice(&1u16.to_le_bytes());
                b.extend_from_slice(&24u16.to_le_bytes());
                for _ in 0..3 {
                    b.extend_from_slice(&r.next_u64().to_le_bytes());
                }
                (0x000a, b)
            }
            6 => {
                // ASi Unix: CRC-32 of the rest, mode, size/dev, uid, gid
                let mut rest = vec![];
                rest.extend_from_slice(&(0o100644u16).to_le_bytes());
                rest.extend_from_slice(&0u32.to_le_bytes());
                rest.extend_from_slice(&(r.below(1000) as u16).to_le_bytes());
                rest.extend_from_slice(&(r.below(1000) as u16).to_le_bytes());
                let mut b = crc32(&rest).to_le_bytes().to_vec();
                b.extend_from_slice(&rest);
                (0x756e, b)
            }
            7 => {
                let mut b = vec![];
                for _ in 0..2 {
                    b.extend_from_slice(&(r.below(1 << 31) as u32).to_le_bytes());
                }
                b.extend_from_slice(&(r.below(1000) as u16).to_le_bytes());
                b.extend_from_slice(&(r.below(1000) as u16).to_le_bytes());
                (0x5855, b)
            }
            8 => {
                let mut b = (r.pickc(&[4u16, 4096, 16384])).to_le_bytes().to_vec();
                b.extend_from_slice(&vec![0u8; r.below(20) as usize]);
                (0xd935, b)
            }
            _ => (0xcafe, vec![]),
        };
        recs.push((id, body));
    }
    let liar = if lie { Some(r.usize_below(recs.len())) } else { None };
    let mut out = vec![];
    for (i, (id, body)) in recs.iter().enumerate() {
        let mut claimed = body.len() as u16;
        if liar == Some(i) {
            claimed = match r.below(5) {
                0 | 1 => r.below(6) as u16,
                2 => claimed.saturating_sub(1),
                3 => claimed + 1,
                _ => r.pickc(&[0xffffu16, 0x8000, 1000]),
            };
        }
        out.extend_from_slice(&id.to_le_bytes());
        out.extend_from_slice(&claimed.to_le_bytes());
        out.extend_from_slice(body);
    }
    out
}
