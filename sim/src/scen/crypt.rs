//! C04 (bit rot), C15 (ZipCrypto), C16 (WinZip AES): storage damage confined to an entry's data /
//! CRC / crypto fields, then the entry is read to EOF through short-read schedules with drawn
//! caller buffers; plus right / wrong / no password behaviour.

use super::common::*;
use super::hostile::{apply_fault, ImgFault};
use crate::content::{crc32, Content, Hex};
use crate::indep::build::{build, BEntry, Built, Enc, Layout};
use crate::indep::{self, crypto};
use crate::ops::*;
use crate::rng::{fnv, mix, Rng};
use crate::runner::*;
use crate::simio::*;
use serde::{Deserialize, Serialize};
use serde_json::Value;
use zip::result::ZipError;
use zip::ZipArchive;

#[derive(Clone, Debug)]
pub struct ReadRes {
    /// Err(description) if the entry could not be opened; "InvalidPassword" for a rejected password
    pub open: Result<(), String>,
    pub bytes: Vec<u8>,
    pub err: Option<String>,
    pub declared_crc: u32,
    pub max_read_end: u64,
    /// the harness stopped reading before EOF/error (output cap): nothing may be concluded from this read
    pub gave_up: bool,
}

pub fn read_entry(store: &Shared, idx: usize, pw: Option<&[u8]>, policy: &Policy, bufs: &[u32], io_out: &mut Option<IoH>) -> ReadRes {
    let disk = SimDisk::new(store.clone(), policy.clone());
    let io = disk.io.clone();
    *io_out = Some(io.clone());
    let mut res = ReadRes { open: Ok(()), bytes: vec![], err: None, declared_crc: 0, max_read_end: 0, gave_up: false };
    let mut ar = match ZipArchive::new(disk) {
        Ok(a) => a,
        Err(e) => {
            res.open = Err(format!("archive: {}", zerr_pub(&e)));
            return res;
        }
    };
    let opened = match pw {
        Some(p) => match ar.by_index_decrypt(idx, p) {
            Ok(Ok(f)) => Ok(f),
            Ok(Err(_)) => {
                res.open = Err("InvalidPassword".into());
                return res;
            }
            Err(e) => Err(e),
        },
        None => ar.by_index(idx),
    };
    match opened {
        Ok(mut f) => {
            res.declared_crc = f.crc32();
            let (data, err, _) = read_all(&mut f, bufs, 64 << 20);
            res.gave_up = read_gave_up();
            res.bytes = data;
            res.err = err.map(|e| format!("{:?}/{}", e.kind(), e));
        }
        Err(e) => {
            res.open = Err(match &e {
                ZipError::UnsupportedArchive(m) if *m == ZipError::PASSWORD_REQUIRED => "PasswordRequired".into(),
                other => zerr_pub(other),
            })
        }
    }
    res.max_read_end = stats(&io).max_read_end;
    res
}

/// read entry number `idx` (in stream order) through the streaming reader
pub fn stream_entry(store: &Shared, idx: usize, policy: &Policy, bufs: &[u32], io_out: &mut Option<IoH>) -> ReadRes {
    let mut st = SimStream::new(store.clone(), policy.clone());
    *io_out = Some(st.inner.io.clone());
    let mut res = ReadRes { open: Ok(()), bytes: vec![], err: None, declared_crc: 0, max_read_end: 0, gave_up: false };
    let mut i = 0;
    loop {
        match zip::read::read_zipfile_from_stream(&mut st) {
            Ok(Some(mut f)) => {
                if i == idx {
                    res.declared_crc = f.crc32();
                    let (data, err, _) = read_all(&mut f, bufs, 64 << 20);
                    res.gave_up = read_gave_up();
                    res.bytes = data;
                    res.err = err.map(|e| format!("{:?}/{}", e.kind(), e));
                    return res;
                }
                i += 1;
            }
            Ok(None) => {
                res.open = Err("no such entry in the stream".into());
                return res;
            }
            Err(e) => {
                res.open = Err(zerr_pub(&e));
                return res;
            }
        }
    }
}

fn pw_of(e: &BEntry) -> Option<Vec<u8>> {
    match &e.enc {
        Some(Enc::ZipCrypto { pw, .. }) | Some(Enc::Aes { pw, .. }) => Some(pw.0.clone()),
        None => None,
    }
}
fn is_ae2(e: &BEntry) -> bool {
    matches!(&e.enc, Some(Enc::Aes { version: 2, .. }))
}

// =============================================================================================
// C04

#[derive(Serialize, Deserialize, Clone, Debug, PartialEq)]
pub enum RotPlan {
    /// every single-bit flip of the data extent and of the 32 CRC bits (seekable: central; stream: local)
    AllFlips { range: Option<(u64, u64)> },
    /// listed faults (positions are relative to the target entry's data extent start unless `abs`)
    Faults(Vec<ImgFault>),
    /// central compressed size larger than what is there
    TruncatedPayload { cut: u64 },
    /// swap the payloads of entries 0 and 1 (same stored length)
    SwapPayloads,
    /// the CRC back-patch was lost: CRC fields still zero
    LostCrcPatch,
    /// declared sizes (central and local) set to boundary values, data and CRC untouched
    SizeFields,
}

#[derive(Serialize, Deserialize, Clone, Debug, PartialEq)]
pub struct RotCase {
    pub layout: Layout,
    pub target: usize,
    pub plan: RotPlan,
    pub read: Policy,
    pub bufs: Vec<u32>,
}

pub struct Bitrot;

fn crc_oracle(r: &ReadRes, ae2: bool, what: &str, reader: &str) -> Result<bool, Verdict> {
    // returns Ok(true) if an error surfaced (or the read was abandoned at the harness's output cap: the
    // property speaks of reads that complete)
    if r.open.is_err() || r.err.is_some() || r.gave_up {
        return Ok(true);
    }
    if !ae2 && crc32(&r.bytes) != r.declared_crc {
        return Err(viol(
            format!("C04/completed-read-with-wrong-crc/{reader}"),
            format!("read to EOF succeeded with {} bytes whose CRC {:#x} != declared {:#x} || {what}", r.bytes.len(), crc32(&r.bytes), r.declared_crc),
        ));
    }
    Ok(false)
}

impl Scenario for Bitrot {
    fn name(&self) -> &'static str {
        "bitrot"
    }
    fn total(&self, tier: Tier) -> u64 {
        match tier {
            Tier::Quick => 1_500,
            Tier::Thorough => 80_000,
        }
    }
    fn rule(&self) -> &'static str {
        "one case = an independently built archive (all methods; plain, ZipCrypto, AE-1, AE-2; data descriptors, ZIP64 fields) + a target entry + a damage plan confined to the entry's data extent or declared CRC; one evaluation = one damaged image read to EOF through the seekable or the streaming reader under a short-read schedule with drawn caller buffers (zero-length reads included). Non-trivial = the damaged entry could be opened (the damage reached the read path); distinct = (case hash, damage, reader)"
    }
    fn exhaustive_note(&self) -> Option<&'static str> {
        Some("per small seed image (data extent <= 600 bytes): every single-bit flip of every data byte and of the 32 CRC bits, for both readers")
    }
    fn gen(&self, seed: u64, idx: u64, _tier: Tier) -> Value {
        let s = mix(mix(seed, fnv(b"bitrot")), idx);
        let mut r = Rng::derive(s, "workload");
        let mut rs = Rng::derive(s, "swarm");
        let plan_kind = rs.below(10);
        let small = plan_kind < 4;
        let mut l = gen_layout(&mut r, 3, if small { 120 } else { *rs.pick(&[300u64, 5000, 70_000]) }, true);
        l.trailing = 0;
        if l.entries.is_empty() {
            l.entries.push(BEntry::default());
        }
        for e in l.entries.iter_mut() {
            if !matches!(e.method, 0 | 8 | 12 | 93) {
                e.method = r.pickc(&METHODS);
            }
            e.crc_lie = None;
            if e.enc.is_none() && rs.chance(1, 6) {
                // a left-over WinZip-AES record in the LOCAL extra field of an entry that is not encrypted (the
                // streaming reader parses it): AE-1 or AE-2, naming the entry's real method. It exempts nothing.
                let mut x = e.extra_local.0.clone();
                x.extend_from_slice(&[0x01, 0x99, 0x07, 0x00, r.range(1, 2) as u8, 0x00, b'A', b'E', r.range(1, 3) as u8]);
                x.extend_from_slice(&e.method.to_le_bytes());
                e.extra_local = Hex(x);
            }
        }
        if plan_kind == 7 {
            // two stored entries of equal length for the payload swap
            let n = r.range(1, 200);
            l.entries.truncate(1);
            let mut a = BEntry { name: Hex(b"a".to_vec()), content: Content::Rand { len: n, seed: 1 }, ..Default::default() };
            let mut b = BEntry { name: Hex(b"b".to_vec()), content: Content::Rand { len: n, seed: 2 }, ..Default::default() };
            a.method = 0;
            b.method = 0;
            l.entries = vec![a, b];
            l.central_rot = 0;
            l.central_rev = false;
        }
        let target = r.usize_below(l.entries.len());
        let plan = match plan_kind {
            0..=3 => RotPlan::AllFlips { range: None },
            4 | 5 => {
                let n = rs.weighted(&[(6, 1u64), (3, 3), (1, 10)]);
                RotPlan::Faults(
                    (0..n)
                        .map(|_| match r.below(3) {
                            0 => ImgFault::BitFlip { pos: r.below(1 << 20), bit: r.below(8) as u8 },
                            1 => ImgFault::SetByte { pos: r.below(1 << 20), val: r.below(256) as u8 },
                            _ => ImgFault::ZeroRange { a: r.below(1 << 20), b: r.below(64) },
                        })
                        .collect(),
                )
            }
            6 => RotPlan::TruncatedPayload { cut: r.range(1, 50) },
            7 => RotPlan::SwapPayloads,
            8 => RotPlan::LostCrcPatch,
            _ => RotPlan::SizeFields,
        };
        let case = RotCase { layout: l, target, plan, read: gen_policy_short(&mut r), bufs: gen_bufs(&mut r) };
        serde_json::to_value(case).unwrap_or(Value::Null)
    }
    fn run(&self, case: &Value, ctx: &mut Ctx) -> Verdict {
        let c: RotCase = match serde_json::from_value(case.clone()) {
            Ok(c) => c,
            Err(e) => return Verdict::Harness(format!("bad case: {e}")),
        };
        let case_hash = fnv(case.to_string().as_bytes());
        let b: Built = build(&c.layout);
        if b.infos.is_empty() {
            return Verdict::Skip("no entries".into());
        }
        // target is an index into the central order
        let t = c.target % b.infos.len();
        let ent = &c.layout.entries[b.order[t]];
        let info = &b.infos[t];
        let pw = pw_of(ent);
        let ae2 = is_ae2(ent);
        // stream order = local order: position of this entry among the locals
        let stream_idx = b.order[t];
        let streamable = c.layout.entries[..=stream_idx].iter().all(|e| e.enc.is_none() && e.dd == 0) && c.layout.entries.iter().all(|e| e.gap_before == 0) && c.layout.prefix == 0;
        let central_crc_pos = info.central_start + 16;
        let local_crc_pos = info.header_start + 14;
        let mut eval = |img: &[u8], what: String, seek: bool, strm: bool, ctx: &mut Ctx| -> Result<(), Verdict> {
            let store = shared_from(img);
            if seek {
                ctx.sub_evals += 1;
                ctx.tick();
                let mut io = None;
                let r = guard(|| read_entry(&store, t, pw.as_deref(), &c.read, &c.bufs, &mut io)).map_err(|v| v)?;
                if let Some(io) = &io {
                    ctx.absorb(io);
                }
                let errd = crc_oracle(&r, ae2, &what, "seekable")?;
                if r.open.is_ok() {
                    ctx.sub_sigs.push(mix(case_hash, fnv(what.as_bytes())));
                }
                if errd {
                    ctx.probe(if r.err.as_deref().map(|e| e.contains("checksum")).unwrap_or(false) { "error:checksum" } else if r.err.as_deref().map(|e| e.contains("authentication")).unwrap_or(false) { "error:mac" } else { "error:other" });
                } else if r.bytes == info.plain {
                    ctx.probe("damage_produced_identical_output");
                }
            }
            if strm && streamable {
                ctx.sub_evals += 1;
                let mut io = None;
                let r = guard(|| stream_entry(&store, stream_idx, &c.read, &c.bufs, &mut io)).map_err(|v| v)?;
                if let Some(io) = &io {
                    ctx.absorb(io);
                }
                let errd = crc_oracle(&r, false, &what, "stream")?;
                if r.open.is_ok() {
                    ctx.sub_sigs.push(mix(case_hash ^ 1, fnv(what.as_bytes())));
                }
                if errd {
                    ctx.probe("stream_error");
                }
            }
            Ok(())
        };
        let img0 = b.image.clone();
        // sanity: the intact image reads back
        {
            let mut io = None;
            let r = read_entry(&shared_from(&img0), t, pw.as_deref(), &Policy::Pure, &[], &mut io);
            if r.open.is_err() || r.err.is_some() || r.bytes != info.plain {
                return Verdict::Skip(format!("intact image does not read back ({:?} {:?}): C03/C15/C16 territory", r.open, r.err));
            }
        }
        // a history on ONE archive handle: the entry read to the end with the right password, then opened again
        // with wrong passwords that pass the one-byte check. What the second and third open decode differs from
        // what the first one decoded although the bytes at rest are the same - every completed read is still owed
        // the checksum (nothing an earlier open established may stand in for it).
        if let Some(Enc::ZipCrypto { pw: right, infozip }) = &ent.enc {
            let expect = if *infozip { (ent.dos.1 >> 8) as u8 } else { (info.crc >> 24) as u8 };
            let blob = &img0[info.data_start as usize..(info.data_start + info.csize.min(12)) as usize];
            if blob.len() == 12 {
                let hist = guard(|| -> Result<(), String> {
                    let mut ar = ZipArchive::new(SimDisk::new(shared_from(&img0), Policy::Pure)).map_err(|e| zerr_pub(&e))?;
                    for round in 0..4u64 {
                        let pwd: Vec<u8> = if round == 0 {
                            right.0.clone()
                        } else {
                            match wrong_password(blob, &right.0, expect, true, case_hash ^ round) {
                                Some(w) => w,
                                None => continue,
                            }
                        };
                        let mut f = match ar.by_index_decrypt(t, &pwd) {
                            Ok(Ok(f)) => f,
                            _ => continue,
                        };
                        let declared = f.crc32();
                        let (data, err, _) = read_all(&mut f, &c.bufs, 64 << 20);
                        if err.is_none() && !read_gave_up() && crate::content::crc32(&data) != declared {
                            return Err(format!("open #{round} of the entry on one archive handle (password {:02x?}): the read completed with {} bytes whose CRC is {:08x}, declared {:08x}", pwd, data.len(), crate::content::crc32(&data), declared));
                        }
                    }
                    Ok(())
                });
                ctx.sub_evals += 1;
                match hist {
                    Err(v) => return v,
                    Ok(Err(e)) if e.contains("the read completed") => return viol("C04/completed-read-with-wrong-crc/reopened", e),
                    _ => ctx.probe("entry_reopened_with_colliding_passwords_on_one_handle"),
                }
            }
        }
        let res: Result<(), Verdict> = (|| {
            match &c.plan {
                RotPlan::AllFlips { range } => {
                    let ext = info.csize.min(600);
                    let total = ext * 8 + 32 + 32;
                    let (lo, hi) = range.unwrap_or((0, total));
                    let mut img = img0.clone();
                    for k in lo..hi.min(total) {
                        let (pos, bit, seek, strm, what) = if k < ext * 8 {
                            // spread over the extent when it is larger than the enumerated window
                            let p = if info.csize <= 600 { k / 8 } else { (k / 8) * (info.csize / 600) };
                            (info.data_start + p, (k % 8) as u8, true, true, format!("flip bit {} of data byte {p}", k % 8))
                        } else if k < ext * 8 + 32 {
                            let j = k - ext * 8;
                            (central_crc_pos + j / 8, (j % 8) as u8, true, false, format!("flip bit {j} of the central CRC"))
                        } else {
                            let j = k - ext * 8 - 32;
                            (local_crc_pos + j / 8, (j % 8) as u8, false, true, format!("flip bit {j} of the local CRC"))
                        };
                        img[pos as usize] ^= 1 << bit;
                        *ctx.fired.entry("BitFlip".into()).or_insert(0) += 1;
                        let r = eval(&img, what, seek, strm, ctx);
                        img[pos as usize] ^= 1 << bit;
                        r?;
                    }
                }
                RotPlan::Faults(fs) => {
                    let mut img = img0.clone();
                    let mut what = String::new();
                    for f in fs {
                        // confine to the data extent (or the CRC field every third time)
                        let conf = |p: u64| info.data_start + p % info.csize.max(1);
                        let f2 = match f {
                            ImgFault::BitFlip { pos, bit } => {
                                if pos % 5 == 0 {
                                    ImgFault::BitFlip { pos: central_crc_pos + pos % 4, bit: *bit }
                                } else {
                                    ImgFault::BitFlip { pos: conf(*pos), bit: *bit }
                                }
                            }
                            ImgFault::SetByte { pos, val } => ImgFault::SetByte { pos: conf(*pos), val: *val },
                            ImgFault::ZeroRange { a, b } => {
                                let s = conf(*a);
                                ImgFault::ZeroRange { a: s, b: (s + *b).min(info.data_start + info.csize) }
                            }
                            o => o.clone(),
                        };
                        what.push_str(&format!("{f2:?};"));
                        apply_fault(&mut img, &f2);
                        *ctx.fired.entry("Damage".into()).or_insert(0) += 1;
                    }
                    if img == img0 {
                        return Ok(());
                    }
                    eval(&img, what, true, true, ctx)?;
                }
                RotPlan::TruncatedPayload { cut } => {
                    // cut bytes out of the end of the extent and keep the declared sizes: the following
                    // bytes (next header / directory) slide into the extent
                    let cut = (*cut).min(info.csize);
                    if cut == 0 {
                        return Ok(());
                    }
                    let mut img = img0.clone();
                    let a = (info.data_start + info.csize - cut) as usize;
                    img.drain(a..a + cut as usize);
                    // keep the directory reachable: fix the end record offsets by the amount removed
                    let p = match indep::parse(&img0) {
                        Ok(p) => p,
                        Err(_) => return Ok(()),
                    };
                    if p.z64.is_some() {
                        return Ok(());
                    }
                    let eocd = (p.eocd_pos - cut) as usize;
                    let off = indep::le32(&img, eocd + 16);
                    if info.central_start > info.data_start {
                        img[eocd + 16..eocd + 20].copy_from_slice(&(off.wrapping_sub(cut as u32)).to_le_bytes());
                    }
                    // later entries' offsets shift too
                    for (i, inf) in b.infos.iter().enumerate() {
                        if inf.header_start > info.header_start {
                            let cpos = (inf.central_start - cut) as usize + 42;
                            if cpos + 4 <= img.len() && c.layout.entries[b.order[i]].z64_central & 4 == 0 {
                                let o = indep::le32(&img, cpos);
                                img[cpos..cpos + 4].copy_from_slice(&o.wrapping_sub(cut as u32).to_le_bytes());
                            }
                        }
                    }
                    *ctx.fired.entry("TruncatedPayload".into()).or_insert(0) += 1;
                    eval(&img, format!("payload truncated by {cut} bytes"), true, false, ctx)?;
                }
                RotPlan::SwapPayloads => {
                    if b.infos.len() < 2 || b.infos[0].csize != b.infos[1].csize || b.infos[0].csize == 0 {
                        return Ok(());
                    }
                    let mut img = img0.clone();
                    let (x, y, n) = (b.infos[0].data_start as usize, b.infos[1].data_start as usize, b.infos[0].csize as usize);
                    for i in 0..n {
                        img.swap(x + i, y + i);
                    }
                    *ctx.fired.entry("SwapPayloads".into()).or_insert(0) += 1;
                    eval(&img, "payloads of entries 0 and 1 swapped".into(), true, true, ctx)?;
                }
                RotPlan::SizeFields => {
                    if ent.z64_central & 3 != 0 || ent.z64_local || ent.dd != 0 {
                        return Ok(()); // the 32-bit fields are not where the sizes live
                    }
                    let cpos = info.central_start as usize;
                    let lpos = info.header_start as usize;
                    for which in 0..2 {
                        for val in [0u32, 1, info.usize as u32 + 1, (info.usize as u32).wrapping_sub(1), info.csize as u32 + 7, 0xffff] {
                            let mut img = img0.clone();
                            // which 0: uncompressed size (central +24, local +22); 1: compressed size (central +20, local +18)
                            let (co, lo) = if which == 0 { (24, 22) } else { (20, 18) };
                            img[cpos + co..cpos + co + 4].copy_from_slice(&val.to_le_bytes());
                            img[lpos + lo..lpos + lo + 4].copy_from_slice(&val.to_le_bytes());
                            if img == img0 {
                                continue;
                            }
                            *ctx.fired.entry("SizeField".into()).or_insert(0) += 1;
                            eval(&img, format!("{} size fields set to {val}", if which == 0 { "uncompressed" } else { "compressed" }), true, true, ctx)?;
                        }
                    }
                }
                RotPlan::LostCrcPatch => {
                    for val in [0u32, 0xffff_ffff, !info.crc] {
                    if val == info.crc {
                        continue;
                    }
                    let mut img = img0.clone();
                    img[central_crc_pos as usize..central_crc_pos as usize + 4].copy_from_slice(&val.to_le_bytes());
                    img[local_crc_pos as usize..local_crc_pos as usize + 4].copy_from_slice(&val.to_le_bytes());
                    *ctx.fired.entry("LostCrcPatch".into()).or_insert(0) += 1;
                    eval(&img, format!("CRC fields set to {val:#010x} (lost back-patch / special value)"), true, true, ctx)?;
                    }
                }
            }
            Ok(())
        })();
        match res {
            Ok(()) => Verdict::Pass,
            Err(v) => v,
        }
    }
    fn shrink(&self, case: &Value) -> Vec<Value> {
        let c: RotCase = match serde_json::from_value(case.clone()) {
            Ok(c) => c,
            Err(_) => return vec![],
        };
        let mut out = vec![];
        if let RotPlan::AllFlips { range } = &c.plan {
            let (lo, hi) = range.unwrap_or((0, 1 << 16));
            if hi - lo > 1 {
                let mid = lo + (hi - lo) / 2;
                out.push(RotCase { plan: RotPlan::AllFlips { range: Some((lo, mid)) }, ..c.clone() });
                out.push(RotCase { plan: RotPlan::AllFlips { range: Some((mid, hi)) }, ..c.clone() });
            }
        }
        if let RotPlan::Faults(fs) = &c.plan {
            for i in (0..fs.len()).rev() {
                let mut v = fs.clone();
                v.remove(i);
                if !v.is_empty() {
                    out.push(RotCase { plan: RotPlan::Faults(v), ..c.clone() });
                }
            }
        }
        if !matches!(c.read, Policy::Pure) {
            out.push(RotCase { read: Policy::Pure, ..c.clone() });
        }
        if !c.bufs.is_empty() {
            out.push(RotCase { bufs: vec![], ..c.clone() });
        }
        if c.layout.entries.len() == 1 || !matches!(c.plan, RotPlan::SwapPayloads) {
            for l2 in shrink_layout(&c.layout) {
                if l2.entries.is_empty() {
                    continue;
                }
                out.push(RotCase { layout: l2, ..c.clone() });
            }
        }
        out.into_iter().filter_map(|c| serde_json::to_value(c).ok()).collect()
    }
}

// =============================================================================================
// C16

#[derive(Serialize, Deserialize, Clone, Debug, PartialEq)]
pub enum AesPlan {
    /// right / none / wrong password on the intact image
    Passwords { wrong: Vec<Hex> },
    /// every single-bit flip of salt, verifier, ciphertext and MAC
    AllFlips { range: Option<(u64, u64)> },
    /// sampled flips (large entries)
    Flips(Vec<(u64, u8)>),
    /// wrong declared CRC: must fail under AE-1, must be ignored under AE-2
    WrongCrc,
    /// multi-byte changes of verifier, authentication code, salt and ciphertext (enumerated list): the same
    /// XOR mask on two bytes, bytes exchanged, every other value of one byte, all-zero / all-ones fields,
    /// 16-byte blocks exchanged - "ANY change ... makes opening or reading it fail"
    Patterns { range: Option<(u64, u64)> },
    /// one EINTR (ErrorKind::Interrupted: legal, retryable) at every source call index k, on the intact entry
    /// (must still read exactly) and on a tampered one (must still fail): whether the authentication code is
    /// checked must not depend on where a retryable interruption lands
    Eintr { range: Option<(u64, u64)> },
}

#[derive(Serialize, Deserialize, Clone, Debug, PartialEq)]
pub struct AesCase {
    pub layout: Layout,
    pub target: usize,
    pub plan: AesPlan,
    pub read: Policy,
    pub bufs: Vec<u32>,
}

pub struct AesSc;

impl Scenario for AesSc {
    fn name(&self) -> &'static str {
        "aes"
    }
    fn total(&self, tier: Tier) -> u64 {
        match tier {
            Tier::Quick => 700,
            Tier::Thorough => 40_000,
        }
    }
    fn rule(&self) -> &'static str {
        "one case = an archive with a WinZip-AES entry built by the independent encryptor ((AE-1|AE-2) x (128|192|256) x inner method x content length from {0,1,15,16,17,31,32,33,4KiB,100KiB,multi-block deflate} and random) among plain neighbours; one evaluation = one open+read of the entry (right / no / wrong password on the intact image; right password after one bit flip in salt, verifier, ciphertext or MAC; wrong declared CRC) under a short-read schedule with drawn caller buffers. Non-trivial = the password verifier was passed and data was requested; distinct = (case hash, flip position / password)"
    }
    fn exhaustive_note(&self) -> Option<&'static str> {
        Some("per small entry (crypto blob <= 400 bytes): every single-bit flip of salt, verifier, ciphertext and MAC")
    }
    fn gen(&self, seed: u64, idx: u64, _tier: Tier) -> Value {
        let s = mix(mix(seed, fnv(b"aes")), idx);
        let mut r = Rng::derive(s, "workload");
        let mut rs = Rng::derive(s, "swarm");
        let plan_kind = rs.below(10);
        let small = (2..6).contains(&plan_kind);
        let len = if small {
            r.pickc(&[1u64, 2, 15, 16, 17, 31, 32, 33, 60, 200])
        } else {
            r.pickc(&[0u64, 1, 15, 16, 17, 31, 32, 33, 4096, 100 * 1024, 70_000, 300])
        };
        let method = r.pickc(&METHODS);
        let mut e = BEntry { name: Hex(b"secret".to_vec()), method, level: r.range(1, 9) as i32, ..Default::default() };
        e.content = match r.below(4) {
            0 => Content::Rand { len, seed: r.next_u64() },
            1 => Content::Run { byte: b'a', len },
            _ => Content::Text { len, seed: r.next_u64() },
        };
        if method == 8 && r.chance(1, 3) {
            // multi-block deflate (stored blocks): an early BFINAL is one bit away
            e.stored_blocks = Some(r.pickc(&[7u32, 100, 1000, 40_000]));
            if !small && r.chance(1, 2) {
                e.content = Content::Rand { len: 120_000, seed: r.next_u64() };
            }
        }
        if matches!(method, 8 | 12) && r.chance(1, 4) {
            // ciphertext beyond the decoder's end-of-stream marker (and beyond its read-ahead window)
            e.trailing_pad = r.pickc(&[1u32, 16, 300, 40_000, 70_000]);
        }
        let pw = match r.below(4) {
            0 => vec![],
            1 => b"password".to_vec(),
            2 => r.rbytes(1, 20),
            _ => vec![0, 0xff, 0x80],
        };
        e.enc = Some(Enc::Aes { pw: Hex(pw), strength: r.range(1, 3) as u8, version: r.range(1, 2) as u8, salt_seed: r.next_u64() });
        e.dos = (r.below(65536) as u16, r.below(65536) as u16);
        {
            // where the AES record sits among the entry's other extra records, and which of the sizes / the offset
            // it has to pick up from a ZIP64 record placed before or after it (0xFFFFFFFF escapes on a small entry)
            let mut rz = Rng::derive(s, "aes-z64");
            if rz.chance(1, 4) {
                e.z64_central = rz.range(1, 7) as u8;
                e.z64_local = rz.chance(1, 2);
                e.z64_first = rz.chance(1, 2);
            }
            if rz.chance(1, 5) {
                e.gp_hint = rz.pickc(&[2u16, 4, 6]);
            }
            if rz.chance(1, 4) {
                // written by a streaming encryptor: bit 3 set, CRC and sizes in a data descriptor behind the data
                // (the central header still carries them - and what it carries is what AE-1 / AE-2 is judged on)
                e.dd = rz.range(1, 4) as u8;
            }
            if rz.chance(1, 5) {
                let rec = real_world_records(&mut rz, &e.name.0, &[], false);
                e.extra_central = Hex(rec.clone());
                if rz.chance(1, 2) {
                    e.extra_local = Hex(rec);
                }
            }
        }
        let mut l = Layout::default();
        // plain neighbours
        let before = r.below(2);
        for i in 0..before {
            l.entries.push(BEntry { name: Hex(format!("n{i}").into_bytes()), content: Content::gen(&mut r, 300), method: r.pickc(&METHODS), ..Default::default() });
        }
        let target = l.entries.len();
        l.entries.push(e);
        if r.chance(1, 2) {
            l.entries.push(BEntry { name: Hex(b"after".to_vec()), content: Content::gen(&mut r, 300), ..Default::default() });
        }
        if r.chance(1, 4) {
            l.prefix = r.below(100) as u32;
        }
        let plan = match plan_kind {
            0 | 1 => AesPlan::Passwords { wrong: (0..3).map(|_| Hex(r.rbytes(0, 12))).collect() },
            2..=4 => {
                if Rng::derive(s, "eintr").chance(1, 4) {
                    AesPlan::Eintr { range: None }
                } else {
                    AesPlan::AllFlips { range: None }
                }
            }
            5 => AesPlan::Patterns { range: None },
            6 | 7 | 8 => AesPlan::Flips((0..r.range(1, 12)).map(|_| (r.below(1 << 30), r.below(8) as u8)).collect()),
            _ => AesPlan::WrongCrc,
        };
        let case = AesCase { layout: l, target, plan, read: gen_policy_short(&mut r), bufs: gen_bufs(&mut r) };
        serde_json::to_value(case).unwrap_or(Value::Null)
    }
    fn run(&self, case: &Value, ctx: &mut Ctx) -> Verdict {
        let c: AesCase = match serde_json::from_value(case.clone()) {
            Ok(c) => c,
            Err(e) => return Verdict::Harness(format!("bad case: {e}")),
        };
        let case_hash = fnv(case.to_string().as_bytes());
        let mut layout = c.layout.clone();
        if matches!(c.plan, AesPlan::WrongCrc) {
            if let Some(e) = layout.entries.get_mut(c.target) {
                e.crc_lie = Some(crc32(&e.content.bytes()) ^ 0x5a5a_0001);
            }
        }
        let b = build(&layout);
        let t = match b.order.iter().position(|x| *x == c.target) {
            Some(t) => t,
            None => return Verdict::Skip("no target".into()),
        };
        let ent = &layout.entries[c.target];
        let (pw, strength, version) = match &ent.enc {
            Some(Enc::Aes { pw, strength, version, .. }) => (pw.0.clone(), *strength, *version),
            _ => return Verdict::Skip("target is not AES".into()),
        };
        let info = &b.infos[t];
        let plain = info.plain.clone();
        let store0 = shared_from(&b.image);
        let sl = crypto::aes_salt_len(strength) as u64;
        let mac_pos = info.data_start + info.csize - 10;
        let mut io = None;
        // intact + right password: exact bytes (under the drawn schedule)
        let r0 = match guard(|| read_entry(&store0, t, Some(&pw), &c.read, &c.bufs, &mut io)) {
            Ok(r) => r,
            Err(v) => return v,
        };
        if let Some(io) = &io {
            ctx.absorb(io);
        }
        ctx.sub_evals += 1;
        if !matches!(c.plan, AesPlan::WrongCrc) {
            if r0.open.is_err() || r0.err.is_some() || r0.bytes != plain {
                return viol("C16/right-password-failed", format!("intact AE-{version} entry (strength {strength}, method {}, {} bytes): open {:?}, error {:?}, got {} bytes", ent.method, plain.len(), r0.open, r0.err, r0.bytes.len()));
            }
            ctx.sub_sigs.push(mix(case_hash, 1));
        }
        let tamper = |img: &[u8], what: String, ctx: &mut Ctx| -> Result<(), Verdict> {
            ctx.sub_evals += 1;
            ctx.tick();
            let st = shared_from(img);
            let mut io = None;
            let r = guard(|| read_entry(&st, t, Some(&pw), &c.read, &c.bufs, &mut io))?;
            if let Some(io) = &io {
                ctx.absorb(io);
            }
            if r.open.is_ok() {
                ctx.sub_sigs.push(mix(case_hash, fnv(what.as_bytes())));
            }
            if r.open.is_err() {
                ctx.probe("tamper:rejected_at_open");
                return Ok(());
            }
            if r.err.is_some() {
                ctx.probe(if r.err.as_deref().map(|e| e.contains("authentication")).unwrap_or(false) { "tamper:mac_error" } else { "tamper:other_error" });
                return Ok(());
            }
            if plain.is_empty() {
                return Ok(()); // the property speaks of non-empty entries
            }
            if r.gave_up {
                // the damaged stream decodes to more than the harness is willing to read (a one-bit flip can
                // turn a bzip2/deflate stream into a long run): end-of-file was never reached, so the
                // "no later than end-of-file" obligation has not come due
                ctx.probe("tamper:inconclusive_output_cap");
                return Ok(());
            }
            // completed read without error on a tampered non-empty entry
            let mac_never_requested = r.max_read_end <= mac_pos;
            let detail = format!("tampered AE-{version} entry (method {}, {} plaintext bytes) read to EOF without error, {} bytes returned ({}) || {what}", ent.method, plain.len(), r.bytes.len(), if r.bytes == plain { "equal to the original" } else { "DIFFERENT from the original" });
            if version == 2 && ent.method != 0 && mac_never_requested {
                // D11: the decoder saw an early end of stream; the remaining ciphertext and the MAC were never pulled
                return Err(ctx.known_or_viol("D11", "C16/tamper-undetected", detail));
            }
            Err(viol("C16/tamper-undetected", detail))
        };
        let res: Result<(), Verdict> = (|| {
            match &c.plan {
                AesPlan::Passwords { wrong } => {
                    // no password
                    ctx.sub_evals += 1;
                    let mut io = None;
                    let r = guard(|| read_entry(&store0, t, None, &c.read, &c.bufs, &mut io))?;
                    if r.open != Err("PasswordRequired".to_string()) {
                        return Err(viol("C16/no-password", format!("opening an AES entry without a password gave {:?} / {} bytes instead of the password-required error", r.open, r.bytes.len())));
                    }
                    // PBKDF2-HMAC-SHA1 zero-pads a key shorter than the 64-byte block: "pw" and "pw\0" are the SAME
                    // password as far as WinZip-AES is concerned (found as a false alarm under VERIF_SEED=4)
                    let hmac_key = |p: &[u8]| -> Vec<u8> {
                        let mut v = p.to_vec();
                        if v.len() <= 64 {
                            while v.last() == Some(&0) {
                                v.pop();
                            }
                        }
                        v
                    };
                    for w in wrong {
                        if hmac_key(&w.0) == hmac_key(&pw) {
                            continue;
                        }
                        ctx.sub_evals += 1;
                        let mut io = None;
                        let r = guard(|| read_entry(&store0, t, Some(&w.0), &c.read, &c.bufs, &mut io))?;
                        if r.open.is_ok() && r.err.is_none() && !r.gave_up && !(plain.is_empty() && r.bytes.is_empty()) {
                            return Err(viol("C16/wrong-password-accepted", format!("wrong password read {} bytes to EOF without error", r.bytes.len())));
                        }
                        if r.open.is_ok() {
                            ctx.probe("wrong_password_passed_the_verifier");
                        }
                        ctx.sub_sigs.push(mix(case_hash, fnv(&w.0)));
                    }
                    // neighbours are unaffected and a password on a plain entry is ignored
                    for (i, inf) in b.infos.iter().enumerate() {
                        if i == t {
                            continue;
                        }
                        let mut io = None;
                        let r = guard(|| read_entry(&store0, i, Some(b"ignored"), &c.read, &c.bufs, &mut io))?;
                        if r.open.is_err() || r.err.is_some() || r.bytes != inf.plain {
                            return Err(viol("C16/neighbour-broken", format!("plain neighbour {i} did not read back with a superfluous password: {:?} {:?}", r.open, r.err)));
                        }
                    }
                }
                AesPlan::AllFlips { range } => {
                    let blob = info.csize.min(400);
                    let total = blob * 8;
                    let (lo, hi) = range.unwrap_or((0, total));
                    let mut img = b.image.clone();
                    for k in lo..hi.min(total) {
                        // for blobs larger than the window: head (salt, verifier, first ciphertext) and tail (MAC)
                        let off = if info.csize <= 400 { k / 8 } else if k / 8 < 200 { k / 8 } else { info.csize - 400 + k / 8 };
                        let region = if off < sl { "salt" } else if off < sl + 2 { "verifier" } else if off < info.csize - 10 { "ciphertext" } else { "mac" };
                        let p = (info.data_start + off) as usize;
                        img[p] ^= 1 << (k % 8);
                        *ctx.fired.entry(format!("BitFlip:{region}")).or_insert(0) += 1;
                        let r = tamper(&img, format!("flip bit {} of {region} byte at blob offset {off}", k % 8), ctx);
                        img[p] ^= 1 << (k % 8);
                        r?;
                    }
                }
                AesPlan::Eintr { range } => {
                    let mut io = None;
                    let _ = guard(|| read_entry(&store0, t, Some(&pw), &Policy::Pure, &c.bufs, &mut io))?;
                    let n = io.as_ref().map(|i| stats(i).calls).unwrap_or(0);
                    // the tampered twin: one ciphertext bit (or, for an entry without ciphertext, one code bit)
                    let cs = info.csize;
                    let toff = if cs > sl + 12 { sl + 2 + (cs - sl - 12) / 2 } else { cs - 1 };
                    let mut timg = b.image.clone();
                    timg[(info.data_start + toff) as usize] ^= 0x10;
                    let tstore = shared_from(&timg);
                    let (lo, hi) = range.unwrap_or((0, n));
                    for k in lo..hi.min(n) {
                        let pol = Policy::At { k, d: Decision::Eintr };
                        ctx.sub_evals += 2;
                        ctx.tick();
                        let mut io = None;
                        let r = guard(|| read_entry(&store0, t, Some(&pw), &pol, &c.bufs, &mut io))?;
                        if let Some(io) = &io {
                            ctx.absorb(io);
                        }
                        if !r.gave_up && (r.open.is_err() || r.err.is_some() || r.bytes != plain) {
                            return Err(viol("C16/right-password-failed", format!("intact AE-{version} entry (method {}, {} bytes) with one EINTR at source call {k}: open {:?}, error {:?}, got {} bytes", ent.method, plain.len(), r.open, r.err, r.bytes.len())));
                        }
                        ctx.sub_sigs.push(mix(case_hash, mix(k, 77)));
                        let mut io = None;
                        let r = guard(|| read_entry(&tstore, t, Some(&pw), &pol, &c.bufs, &mut io))?;
                        *ctx.fired.entry("eintr".to_string()).or_insert(0) += 1;
                        if r.open.is_ok() && r.err.is_none() && !r.gave_up && !plain.is_empty() {
                            return Err(viol("C16/tamper-undetected", format!("tampered AE-{version} entry (method {}, {} plaintext bytes, bit flipped at blob offset {toff}) read to EOF without error when one EINTR lands at source call {k} ({} bytes returned)", ent.method, plain.len(), r.bytes.len())));
                        }
                    }
                }
                AesPlan::Patterns { range } => {
                    // (region, list of (blob offset, new byte value))
                    let cs = info.csize;
                    let blob: Vec<u8> = b.image[info.data_start as usize..(info.data_start + cs) as usize].to_vec();
                    let mut pats: Vec<(&'static str, Vec<(u64, u8)>, String)> = vec![];
                    let xor2 = |a: u64, bb: u64, m: u8| vec![(a, blob[a as usize] ^ m), (bb, blob[bb as usize] ^ m)];
                    let v0 = sl;
                    // verifier: both bytes by the same mask (255), every other value of each byte (510), exchanged, constants
                    for m in 1..=255u8 {
                        pats.push(("verifier", xor2(v0, v0 + 1, m), format!("verifier: both bytes xor {m:#04x}")));
                    }
                    for i in 0..2u64 {
                        for m in 1..=255u8 {
                            if m.count_ones() > 1 {
                                pats.push(("verifier", vec![(v0 + i, blob[(v0 + i) as usize] ^ m)], format!("verifier: byte {i} xor {m:#04x}")));
                            }
                        }
                    }
                    pats.push(("verifier", vec![(v0, blob[v0 as usize + 1]), (v0 + 1, blob[v0 as usize])], "verifier: bytes exchanged".into()));
                    for k in [0u8, 0xff] {
                        pats.push(("verifier", vec![(v0, k), (v0 + 1, k)], format!("verifier: set to {k:#04x}{k:02x}")));
                    }
                    // authentication code: every pair of bytes by the same mask, all ten by the same mask, rotations, constants
                    let m0 = cs - 10;
                    for i in 0..10u64 {
                        for j in i + 1..10 {
                            for m in [0x01u8, 0x80, 0xff, 0x5a] {
                                pats.push(("mac", xor2(m0 + i, m0 + j, m), format!("authentication code: bytes {i} and {j} xor {m:#04x}")));
                            }
                        }
                    }
                    for m in [0x01u8, 0x80, 0xff] {
                        pats.push(("mac", (0..10u64).map(|i| (m0 + i, blob[(m0 + i) as usize] ^ m)).collect(), format!("authentication code: all bytes xor {m:#04x}")));
                    }
                    for rot in [1u64, 5, 9] {
                        pats.push(("mac", (0..10u64).map(|i| (m0 + i, blob[(m0 + (i + rot) % 10) as usize])).collect(), format!("authentication code: rotated by {rot}")));
                    }
                    for k in [0u8, 0xff] {
                        pats.push(("mac", (0..10u64).map(|i| (m0 + i, k)).collect(), format!("authentication code: all {k:#04x}")));
                    }
                    for i in 0..10u64 {
                        for m in [0x03u8, 0x81, 0xfe, 0x55] {
                            pats.push(("mac", vec![(m0 + i, blob[(m0 + i) as usize] ^ m)], format!("authentication code: byte {i} xor {m:#04x}")));
                        }
                    }
                    // salt: pairs by the same mask, neighbours exchanged
                    for i in 0..sl {
                        let j = (i + 1 + (i * 7) % (sl - 1).max(1)) % sl;
                        if i != j {
                            pats.push(("salt", xor2(i, j, 0x80), format!("salt: bytes {i} and {j} xor 0x80")));
                            pats.push(("salt", xor2(i, j, 0xff), format!("salt: bytes {i} and {j} xor 0xff")));
                            pats.push(("salt", vec![(i, blob[j as usize]), (j, blob[i as usize])], format!("salt: bytes {i} and {j} exchanged")));
                        }
                    }
                    // ciphertext: pairs by the same mask (neighbours, one block apart), blocks exchanged, last byte only
                    let c0 = sl + 2;
                    let cn = cs - 10 - c0;
                    if cn >= 2 {
                        for i in (0..cn - 1).step_by(((cn / 24).max(1)) as usize) {
                            pats.push(("ciphertext", xor2(c0 + i, c0 + i + 1, 0x01), format!("ciphertext: bytes {i} and {} xor 0x01", i + 1)));
                            pats.push(("ciphertext", xor2(c0 + i, c0 + i + 1, 0xff), format!("ciphertext: bytes {i} and {} xor 0xff", i + 1)));
                            if i + 16 < cn {
                                pats.push(("ciphertext", xor2(c0 + i, c0 + i + 16, 0x80), format!("ciphertext: bytes {i} and {} xor 0x80", i + 16)));
                            }
                        }
                        pats.push(("ciphertext", vec![(c0 + cn - 1, blob[(c0 + cn - 1) as usize] ^ 0xa5)], "ciphertext: last byte xor 0xa5".into()));
                    }
                    if cn >= 32 {
                        pats.push(("ciphertext", (0..16u64).flat_map(|i| vec![(c0 + i, blob[(c0 + 16 + i) as usize]), (c0 + 16 + i, blob[(c0 + i) as usize])]).collect(), "ciphertext: first two 16-byte blocks exchanged".into()));
                    }
                    let (lo, hi) = range.unwrap_or((0, pats.len() as u64));
                    let mut img = b.image.clone();
                    for k in lo..hi.min(pats.len() as u64) {
                        let (region, edits, what) = &pats[k as usize];
                        if edits.iter().all(|(o, v)| blob[*o as usize] == *v) {
                            continue; // not a change (exchanged equal bytes)
                        }
                        for (o, v) in edits {
                            img[(info.data_start + o) as usize] = *v;
                        }
                        *ctx.fired.entry(format!("Pattern:{region}")).or_insert(0) += 1;
                        let r = tamper(&img, what.clone(), ctx);
                        for (o, _) in edits {
                            img[(info.data_start + o) as usize] = blob[*o as usize];
                        }
                        r?;
                    }
                }
                AesPlan::Flips(fl) => {
                    for (pos, bit) in fl {
                        let off = pos % info.csize.max(1);
                        let region = if off < sl { "salt" } else if off < sl + 2 { "verifier" } else if off < info.csize - 10 { "ciphertext" } else { "mac" };
                        let mut img = b.image.clone();
                        img[(info.data_start + off) as usize] ^= 1 << bit;
                        *ctx.fired.entry(format!("BitFlip:{region}")).or_insert(0) += 1;
                        tamper(&img, format!("flip bit {bit} of {region} byte at blob offset {off}"), ctx)?;
                    }
                }
                AesPlan::WrongCrc => {
                    // "the CRC is enforced for AE-1 and ignored for AE-2": every lie from a list of plausible
                    // and special values (zero as written by AE-2 producers, all-ones, complement, one bit off ...)
                    let real = crc32(&plain);
                    let mut lies = vec![real ^ 0x5a5a_0001, 0, 0xffff_ffff, !real, real ^ 1, real ^ 0x8000_0000, real.wrapping_add(1), real.swap_bytes(), mix(case_hash, 9) as u32];
                    lies.dedup();
                    for (k, lie) in lies.into_iter().enumerate() {
                        if lie == real {
                            continue;
                        }
                        let r = if k == 0 {
                            r0.clone()
                        } else {
                            let mut l2 = c.layout.clone();
                            l2.entries[c.target].crc_lie = Some(lie);
                            let b2 = build(&l2);
                            let st = shared_from(&b2.image);
                            ctx.sub_evals += 1;
                            let mut io = None;
                            guard(|| read_entry(&st, t, Some(&pw), &c.read, &c.bufs, &mut io))?
                        };
                        if version == 1 {
                            if r.open.is_ok() && r.err.is_none() && !r.gave_up && !plain.is_empty() {
                                return Err(viol("C16/ae1-crc-not-enforced", format!("AE-1 entry whose declared CRC is {lie:#010x} (real {real:#010x}) read {} bytes without error", r.bytes.len())));
                            }
                            ctx.probe("ae1_wrong_crc_rejected");
                        } else {
                            if r.open.is_err() || r.err.is_some() || r.bytes != plain {
                                return Err(viol("C16/ae2-crc-not-ignored", format!("AE-2 entry whose CRC field is {lie:#010x} failed: {:?} {:?}", r.open, r.err)));
                            }
                            ctx.probe("ae2_wrong_crc_ignored");
                        }
                    }
                    ctx.sub_sigs.push(mix(case_hash, 2));
                }
            }
            Ok(())
        })();
        match res {
            Ok(()) => Verdict::Pass,
            Err(v) => v,
        }
    }
    fn shrink(&self, case: &Value) -> Vec<Value> {
        let c: AesCase = match serde_json::from_value(case.clone()) {
            Ok(c) => c,
            Err(_) => return vec![],
        };
        let mut out = vec![];
        if let AesPlan::AllFlips { range } = &c.plan {
            let (lo, hi) = range.unwrap_or((0, 1 << 13));
            if hi - lo > 1 {
                let mid = lo + (hi - lo) / 2;
                out.push(AesCase { plan: AesPlan::AllFlips { range: Some((lo, mid)) }, ..c.clone() });
                out.push(AesCase { plan: AesPlan::AllFlips { range: Some((mid, hi)) }, ..c.clone() });
            }
        }
        if let AesPlan::Eintr { range } = &c.plan {
            let (lo, hi) = range.unwrap_or((0, 1 << 12));
            if hi - lo > 1 {
                let mid = lo + (hi - lo) / 2;
                out.push(AesCase { plan: AesPlan::Eintr { range: Some((lo, mid)) }, ..c.clone() });
                out.push(AesCase { plan: AesPlan::Eintr { range: Some((mid, hi)) }, ..c.clone() });
            }
        }
        if let AesPlan::Patterns { range } = &c.plan {
            let (lo, hi) = range.unwrap_or((0, 1 << 12));
            if hi - lo > 1 {
                let mid = lo + (hi - lo) / 2;
                out.push(AesCase { plan: AesPlan::Patterns { range: Some((lo, mid)) }, ..c.clone() });
                out.push(AesCase { plan: AesPlan::Patterns { range: Some((mid, hi)) }, ..c.clone() });
            }
        }
        if let AesPlan::Flips(fl) = &c.plan {
            for i in (0..fl.len()).rev() {
                let mut v = fl.clone();
                v.remove(i);
                if !v.is_empty() {
                    out.push(AesCase { plan: AesPlan::Flips(v), ..c.clone() });
                }
            }
        }
        if !matches!(c.read, Policy::Pure) {
            out.push(AesCase { read: Policy::Pure, ..c.clone() });
        }
        if !c.bufs.is_empty() {
            out.push(AesCase { bufs: vec![], ..c.clone() });
        }
        // neighbours can go when the target index is kept consistent
        if c.layout.entries.len() > 1 {
            let mut l = c.layout.clone();
            let e = l.entries[c.target].clone();
            l.entries = vec![e];
            l.prefix = 0;
            out.push(AesCase { layout: l, target: 0, ..c.clone() });
        }
        out.into_iter().filter_map(|c| serde_json::to_value(c).ok()).collect()
    }
}

// =============================================================================================
// C15

#[derive(Serialize, Deserialize, Clone, Debug, PartialEq)]
pub struct ZcCase {
    /// true: the entry is written by the crate (with_deprecated_encryption); false: by the independent builder
    pub by_crate: bool,
    pub infozip: bool,
    pub pw: Hex,
    pub method: u16,
    pub level: Option<i32>,
    pub content: Content,
    /// desired check byte (0..=255): content / time are adjusted to reach it
    pub check: u8,
    pub neighbours: u8,
    pub wrong: Vec<Hex>,
    pub read: Policy,
    pub bufs: Vec<u32>,
}

pub struct ZipCryptoSc;

/// append up to 3 bytes to `base` so that the high byte of its CRC equals `want`
fn content_with_crc_high(base: &[u8], want: u8) -> Vec<u8> {
    let mut v = base.to_vec();
    v.extend_from_slice(&[0, 0]);
    let n = v.len();
    for a in 0..=255u8 {
        for b in 0..=255u8 {
            v[n - 2] = a;
            v[n - 1] = b;
            if (crc32(&v) >> 24) as u8 == want {
                return v;
            }
        }
    }
    v
}

/// search a wrong password whose decrypted check byte collides (or not) with the expected one
pub fn wrong_password(blob: &[u8], right: &[u8], expect: u8, collide: bool, seed: u64) -> Option<Vec<u8>> {
    let mut r = Rng::new(seed);
    for _ in 0..4000 {
        let cand = r.rbytes(1, 6);
        if cand == right {
            continue;
        }
        let (_p, cb) = crypto::zipcrypto_decrypt(&cand, &blob[..12.min(blob.len())]);
        if (cb == expect) == collide {
            return Some(cand);
        }
    }
    None
}

impl Scenario for ZipCryptoSc {
    fn name(&self) -> &'static str {
        "zipcrypto"
    }
    fn total(&self, tier: Tier) -> u64 {
        match tier {
            Tier::Quick => 12_000,
            Tier::Thorough => 600_000,
        }
    }
    fn rule(&self) -> &'static str {
        "one case = one encrypted entry (written by the crate with a password, or encrypted by the independent PKWARE cipher in the CRC-check or the Info-ZIP time-check convention) among plain neighbours, with a chosen check byte (run index mod 256 covers all 256 outcomes), read with the right password, without one, and with wrong passwords searched to collide / not collide with the check byte, under a short-read schedule with drawn caller buffers; crate-written entries are additionally decrypted by the independent cipher and scanned for plaintext. Non-trivial = the right password returned the exact bytes; distinct = (password, content, method, convention, check byte, schedule digest)"
    }
    fn exhaustive_note(&self) -> Option<&'static str> {
        Some("check byte: all 256 values are reached by construction (chosen CRC high byte / DOS time high byte)")
    }
    fn gen(&self, seed: u64, idx: u64, _tier: Tier) -> Value {
        let s = mix(mix(seed, fnv(b"zipcrypto")), idx);
        let mut r = Rng::derive(s, "workload");
        let by_crate = r.chance(1, 2);
        let method = r.pickc(&METHODS);
        let pw = match r.below(6) {
            0 => vec![],
            1 => b"password".to_vec(),
            2 => r.rbytes(1, 16),
            3 => r.bytes(1024),
            4 => vec![0, 0x80, 0xff],
            _ => r.rbytes(1, 4),
        };
        let content = match r.below(5) {
            0 => Content::Lit(Hex(vec![])),
            1 => Content::Rand { len: r.range(16, 64), seed: r.next_u64() },
            _ => {
                let mx = r.pickc(&[16u64, 300, 5000, 70_000]);
                Content::gen(&mut r, mx)
            }
        };
        let case = ZcCase {
            by_crate,
            infozip: !by_crate && r.chance(1, 2),
            pw: Hex(pw),
            method,
            level: gen_level(&mut r, method),
            content,
            check: (idx % 256) as u8,
            neighbours: r.below(3) as u8,
            wrong: (0..2).map(|_| Hex(r.rbytes(0, 8))).collect(),
            read: gen_policy_short(&mut r),
            bufs: gen_bufs(&mut r),
        };
        serde_json::to_value(case).unwrap_or(Value::Null)
    }
    fn run(&self, case: &Value, ctx: &mut Ctx) -> Verdict {
        let c: ZcCase = match serde_json::from_value(case.clone()) {
            Ok(c) => c,
            Err(e) => return Verdict::Harness(format!("bad case: {e}")),
        };
        let case_hash = fnv(case.to_string().as_bytes());
        // content adjusted so that the CRC high byte equals the desired check byte (CRC convention)
        let plain = if c.infozip { c.content.bytes() } else { content_with_crc_high(&c.content.bytes(), c.check) };
        let t = c.neighbours as usize / 2 + (c.neighbours as usize % 2);
        let nb_plain: Vec<u8> = b"neighbour content, not encrypted".to_vec();
        let (image, target, expect_check, blob_range): (Vec<u8>, usize, u8, (u64, u64)) = if c.by_crate {
            let mut ops = vec![];
            for i in 0..t {
                ops.push(Op::StartFile { name: format!("n{i}"), o: Opts::default() });
                ops.push(Op::Write { c: Content::Lit(Hex(nb_plain.clone())), split: vec![] });
            }
            ops.push(Op::StartFile { name: "secret".into(), o: Opts { method: c.method, level: c.level, password: Some(c.pw.clone()), ..Opts::default() } });
            ops.push(Op::Write { c: Content::Lit(Hex(plain.clone())), split: gen_split(&mut Rng::new(case_hash), plain.len() as u64) });
            if c.neighbours > 1 {
                ops.push(Op::StartFile { name: "after".into(), o: Opts::default() });
                ops.push(Op::Write { c: Content::Lit(Hex(nb_plain.clone())), split: vec![] });
            }
            let store = shared_empty();
            let (out, _io) = match guard(|| super::prog::exec_on(store.clone(), false, &ops, &[], &Policy::Pure, 0, true)) {
                Ok(x) => x,
                Err(v) => return v,
            };
            if out.steps.iter().any(|s| !s.res.is_ok()) || out.final_res.as_ref().map(|r| !r.is_ok()).unwrap_or(true) {
                return viol("C15/write-failed", format!("writing an encrypted entry failed: {:?}", out.steps.iter().find(|s| !s.res.is_ok()).map(|s| s.res.clone())));
            }
            let img = image_of(&store);
            let p = match indep::parse(&img) {
                Ok(p) => p,
                Err(e) => return viol("C15/unparseable", e),
            };
            let ce = &p.centrals[t];
            let l = match &p.locals[t] {
                Ok(l) => l.clone(),
                Err(e) => return viol("C15/unparseable", e.clone()),
            };
            // (a) stored encrypted with the standard cipher: flags, independent decryption, plaintext absence
            if ce.flags & 1 == 0 || l.flags & 1 == 0 {
                return viol("C15/flag-missing", "encryption flag not set in both headers".to_string());
            }
            let blob = img[l.data_start as usize..(l.data_start + ce.csize) as usize].to_vec();
            if blob.len() < 12 {
                return viol("C15/short-blob", "encrypted entry shorter than the 12-byte header".to_string());
            }
            let (dec, cb) = crypto::zipcrypto_decrypt(&c.pw.0, &blob);
            if cb != (ce.crc >> 24) as u8 {
                return viol("C15/check-byte", format!("independent cipher decrypts check byte {cb:#x}, CRC high byte is {:#x}", ce.crc >> 24));
            }
            match indep::decode(c.method, &dec, plain.len() + 16) {
                Some(Ok(d)) if d == plain => {}
                other => return viol("C15/independent-decrypt", format!("independent PKWARE cipher + decoder do not recover the original bytes ({:?})", other.map(|r| r.map(|v| v.len())))),
            }
            let comp = indep::encode(c.method, c.level.unwrap_or(6), &plain);
            let needle: &[u8] = if c.method == 0 { &plain } else { &dec };
            let _ = comp;
            if needle.len() >= 16 && img.windows(needle.len()).any(|w| w == needle) {
                return viol("C15/plaintext-in-file", "the (compressed) plaintext occurs verbatim in the archive".to_string());
            }
            ctx.probe("crate_written_entry_decrypted_independently");
            (img, t, (ce.crc >> 24) as u8, (l.data_start, ce.csize))
        } else {
            let mut l = Layout::default();
            for i in 0..t {
                l.entries.push(BEntry { name: Hex(format!("n{i}").into_bytes()), content: Content::Lit(Hex(nb_plain.clone())), ..Default::default() });
            }
            let mut e = BEntry { name: Hex(b"secret".to_vec()), method: c.method, level: c.level.unwrap_or(6).clamp(1, 9), content: Content::Lit(Hex(plain.clone())), ..Default::default() };
            if c.infozip {
                e.dos = (0x2821, ((c.check as u16) << 8) | 0x15);
            }
            e.enc = Some(Enc::ZipCrypto { pw: c.pw.clone(), infozip: c.infozip });
            // what real producers put next to such entries: Info-ZIP's extended timestamp (UT, with a UTC time
            // that is NOT the DOS local time the check byte was taken from), Unix uid/gid (ux), NTFS times -
            // none of them may influence which password is accepted
            {
                let mut rx = Rng::new(case_hash ^ 0x5455);
                if rx.chance(1, 2) {
                    let t = 1_000_000_000u32 + rx.below(700_000_000) as u32;
                    let mut ut_c = vec![0x55, 0x54, 5, 0, 0x03];
                    ut_c.extend_from_slice(&t.to_le_bytes());
                    let mut ut_l = vec![0x55, 0x54, 9, 0, 0x03];
                    ut_l.extend_from_slice(&t.to_le_bytes());
                    ut_l.extend_from_slice(&(t + 7).to_le_bytes());
                    e.extra_central.0.extend_from_slice(&ut_c);
                    e.extra_local.0.extend_from_slice(&ut_l);
                    ctx.probe("foreign_entry_with_extended_timestamp");
                }
                if rx.chance(1, 3) {
                    // zip -9e / zip -1e / 7-Zip -mx: the compression-effort hint in the general-purpose flags
                    e.gp_hint = rx.pickc(&[2u16, 4, 6]);
                    ctx.probe("foreign_entry_with_effort_hint_bits");
                }
                if rx.chance(1, 3) {
                    let ux = [0x75u8, 0x78, 11, 0, 1, 4, 0xe8, 3, 0, 0, 4, 0xe8, 3, 0, 0];
                    e.extra_central.0.extend_from_slice(&ux);
                    e.extra_local.0.extend_from_slice(&ux);
                }
                if rx.chance(1, 4) {
                    let mut nt = vec![0x0a, 0x00, 32, 0, 0, 0, 0, 0, 1, 0, 24, 0];
                    nt.extend_from_slice(&rx.bytes(24));
                    e.extra_central.0.extend_from_slice(&nt);
                }
            }
            l.entries.push(e);
            if c.neighbours > 1 {
                l.entries.push(BEntry { name: Hex(b"after".to_vec()), content: Content::Lit(Hex(nb_plain.clone())), ..Default::default() });
            }
            let b = build(&l);
            let info = &b.infos[t];
            let chk = if c.infozip { c.check } else { (info.crc >> 24) as u8 };
            (b.image.clone(), t, chk, (info.data_start, info.csize))
        };
        if !c.infozip && expect_check != c.check {
            ctx.probe("check_byte_not_reached");
        }
        ctx.probe(&format!("check_byte:{expect_check}"));
        let store = shared_from(&image);
        let rd = |pw: Option<&[u8]>, idx: usize, ctx: &mut Ctx| -> Result<ReadRes, Verdict> {
            ctx.sub_evals += 1;
            let mut io = None;
            let r = guard(|| read_entry(&store, idx, pw, &c.read, &c.bufs, &mut io))?;
            if let Some(io) = &io {
                ctx.absorb(io);
            }
            Ok(r)
        };
        let res: Result<(), Verdict> = (|| {
            // right password
            let r = rd(Some(&c.pw.0), target, ctx)?;
            if r.open.is_err() || r.err.is_some() || r.bytes != plain {
                return Err(viol("C15/right-password-failed", format!("right password: open {:?}, error {:?}, {} bytes (expected {}), written by {}", r.open, r.err, r.bytes.len(), plain.len(), if c.by_crate { "the crate" } else if c.infozip { "the independent cipher (Info-ZIP convention)" } else { "the independent cipher" })));
            }
            ctx.sig = Some(mix(case_hash, ctx.digest));
            // no password
            let r = rd(None, target, ctx)?;
            if r.open != Err("PasswordRequired".to_string()) {
                return Err(viol("C15/no-password", format!("opening without a password gave {:?} / {} bytes instead of the password-required error", r.open, r.bytes.len())));
            }
            // wrong passwords: drawn ones plus one that collides with the check byte and one that does not
            let blob = &image[blob_range.0 as usize..(blob_range.0 + blob_range.1) as usize];
            let mut wrongs: Vec<(Vec<u8>, &str)> = c.wrong.iter().map(|w| (w.0.clone(), "drawn")).collect();
            if let Some(w) = wrong_password(blob, &c.pw.0, expect_check, true, case_hash) {
                wrongs.push((w, "colliding"));
            }
            if let Some(w) = wrong_password(blob, &c.pw.0, expect_check, false, case_hash ^ 9) {
                wrongs.push((w, "non-colliding"));
            }
            for (w, kind) in wrongs {
                if w == c.pw.0 {
                    continue;
                }
                let r = rd(Some(&w), target, ctx)?;
                match (&r.open, &r.err) {
                    (Err(e), _) if e == "InvalidPassword" => {
                        ctx.probe("wrong_password_rejected_up_front");
                        if kind == "colliding" {
                            ctx.probe("colliding_password_rejected_up_front");
                        }
                    }
                    (Err(e), _) => return Err(viol("C15/wrong-password-error-kind", format!("wrong password produced {e} instead of InvalidPassword"))),
                    (Ok(()), Some(_)) => {
                        ctx.probe("wrong_password_passed_the_check_byte_then_read_error");
                        if kind == "non-colliding" {
                            ctx.probe("non_colliding_password_accepted_at_open");
                        }
                    }
                    (Ok(()), None) if r.gave_up => ctx.probe("wrong_password_inconclusive_output_cap"),
                    (Ok(()), None) => {
                        if r.bytes != plain {
                            return Err(viol("C15/wrong-password-accepted", format!("a {kind} wrong password read {} bytes to EOF without error (original has {})", r.bytes.len(), plain.len())));
                        }
                        ctx.probe("wrong_password_completed_with_original_bytes");
                    }
                }
            }
            // neighbours: unaffected; password supplied for an unencrypted entry is ignored
            let total = t + 1 + if c.neighbours > 1 { 1 } else { 0 };
            for i in 0..total {
                if i == target {
                    continue;
                }
                let r = rd(Some(b"superfluous"), i, ctx)?;
                if r.open.is_err() || r.err.is_some() || r.bytes != nb_plain {
                    return Err(viol("C15/neighbour-broken", format!("plain neighbour {i}: {:?} {:?} {} bytes", r.open, r.err, r.bytes.len())));
                }
                let r = rd(None, i, ctx)?;
                if r.open.is_err() || r.err.is_some() || r.bytes != nb_plain {
                    return Err(viol("C15/neighbour-broken", format!("plain neighbour {i} without password: {:?} {:?}", r.open, r.err)));
                }
            }
            Ok(())
        })();
        match res {
            Ok(()) => Verdict::Pass,
            Err(v) => v,
        }
    }
    fn shrink(&self, case: &Value) -> Vec<Value> {
        let c: ZcCase = match serde_json::from_value(case.clone()) {
            Ok(c) => c,
            Err(_) => return vec![],
        };
        let mut out = vec![];
        if !matches!(c.read, Policy::Pure) {
            out.push(ZcCase { read: Policy::Pure, ..c.clone() });
        }
        if !c.bufs.is_empty() {
            out.push(ZcCase { bufs: vec![], ..c.clone() });
        }
        if c.neighbours > 0 {
            out.push(ZcCase { neighbours: 0, ..c.clone() });
        }
        if c.method != 0 {
            out.push(ZcCase { method: 0, level: None, ..c.clone() });
        }
        if c.pw.0 != b"pw" {
            out.push(ZcCase { pw: Hex(b"pw".to_vec()), ..c.clone() });
        }
        if !c.wrong.is_empty() {
            out.push(ZcCase { wrong: vec![], ..c.clone() });
        }
        for c2 in c.content.shrinks() {
            out.push(ZcCase { content: c2, ..c.clone() });
        }
        out.into_iter().filter_map(|c| serde_json::to_value(c).ok()).collect()
    }
}
