//! C07: extract() reproduces the tree and writes nothing outside the target. The archive source is
//! simulated (SimDisk / SimStream with short reads, optionally a reader fault mid-extraction); the
//! sink is the REAL file system, confined to a fresh deep sandbox whose whole parent is snapshotted
//! (confinement is a statement about what the kernel does with the paths the crate hands it).

use super::common::*;
use crate::content::{crc32, Content, Hex};
use crate::indep::build::{build, BEntry, Layout};
use crate::ops::*;
use crate::rng::{fnv, mix, Rng};
use crate::runner::*;
use crate::simio::*;
use serde::{Deserialize, Serialize};
use serde_json::Value;
use std::collections::{BTreeMap, BTreeSet};
use std::os::unix::fs::{MetadataExt, PermissionsExt};
use std::path::{Path, PathBuf};
use zip::unstable::stream::ZipStreamReader;
use zip::ZipArchive;

const CANARY: &str = "\u{1}CANARY";

#[derive(Serialize, Deserialize, Clone, Debug, PartialEq)]
pub struct XEntry {
    pub name: String,
    /// 0 file, 1 directory (add_directory / trailing slash), 2 symlink-typed
    pub kind: u8,
    pub content: Content,
    pub perm: Option<u32>,
    pub method: u16,
    /// name in the central directory when it differs from the local header's (independent builder only)
    #[serde(default)]
    pub central_name: Option<String>,
}

#[derive(Serialize, Deserialize, Clone, Debug, PartialEq)]
pub struct XCase {
    pub entries: Vec<XEntry>,
    /// true: the crate's writer produces the archive; false: the independent builder (any mode bits)
    pub by_writer: bool,
    pub seekable: bool,
    pub policy: Policy,
    pub fault: Option<(u64, Decision)>,
    /// directories of the archive (by entry index) that already exist in the target before extraction, with
    /// the mode they were created with: the recorded mode must still be applied
    #[serde(default)]
    pub precreate: Vec<(usize, u32)>,
    /// how the target directory is NAMED for extract(): 0 absolute; 1 "../target" from a sibling directory;
    /// 2 "./target"; 3 "sibling_dir/../target"; 4 "." from inside the target (the process's working directory
    /// is moved into the sandbox for the call and restored afterwards)
    #[serde(default)]
    pub target_form: u8,
    /// regular files that already exist at the paths of file entries (by entry index) before extraction, with
    /// their length and mode: unpacking over an older copy must leave exactly the entry's bytes (longer, shorter
    /// and equally long older files)
    #[serde(default)]
    pub prefiles: Vec<(usize, u64, u32)>,
    /// 'version made by' host of every entry of an independently built archive (None = 3, Unix). 0 = MS-DOS: the
    /// external attributes are then a DOS attribute word and the recorded mode is the documented mapping of it;
    /// any other host: no mode is recorded. Extractors that treat names by host get their hostile names here.
    #[serde(default)]
    pub host: Option<u8>,
    /// independently built archives: the central directory lists the entries in another order than their local
    /// headers lie in the file (rotation, reversal) - the seekable extractor goes by the directory, the streaming
    /// one meets the files in file order and the metadata in directory order
    #[serde(default)]
    pub central_order: Option<(u32, bool)>,
    /// extract as an unprivileged user (effective uid 65534 for the duration of the call; the harness itself runs as
    /// root, for whom the kernel neither strips set-uid / set-gid bits on write nor refuses anything): the recorded
    /// permission bits must come out all the same
    #[serde(default)]
    pub unpriv: bool,
}

pub struct Extract;

#[derive(Clone, Debug, PartialEq, Eq)]
struct Obj {
    kind: char,
    size: u64,
    mode: u32,
    mtime: (i64, i64),
    hash: u32,
    link: String,
}

fn snapshot(root: &Path, skip: &Path) -> BTreeMap<PathBuf, Obj> {
    let mut out = BTreeMap::new();
    let mut stack = vec![root.to_path_buf()];
    while let Some(d) = stack.pop() {
        let rd = match std::fs::read_dir(&d) {
            Ok(r) => r,
            Err(_) => continue,
        };
        for ent in rd.flatten() {
            let p = ent.path();
            if p == skip {
                continue;
            }
            let md = match std::fs::symlink_metadata(&p) {
                Ok(m) => m,
                Err(_) => continue,
            };
            let ft = md.file_type();
            let (kind, hash, link) = if ft.is_symlink() {
                ('l', 0, std::fs::read_link(&p).map(|x| x.to_string_lossy().into_owned()).unwrap_or_default())
            } else if ft.is_dir() {
                stack.push(p.clone());
                ('d', 0, String::new())
            } else {
                ('f', std::fs::read(&p).map(|b| crc32(&b)).unwrap_or(0), String::new())
            };
            // a directory's mtime changes when children are added: only compared for directories whose
            // children are themselves unchanged, which the map comparison implies; keep it for all
            out.insert(p, Obj { kind, size: if kind == 'f' { md.len() } else { 0 }, mode: md.mode(), mtime: (md.mtime(), md.mtime_nsec()), hash, link });
        }
    }
    out
}

fn force_remove(p: &Path) {
    // make everything traversable first
    let mut stack = vec![p.to_path_buf()];
    while let Some(d) = stack.pop() {
        if let Ok(md) = std::fs::symlink_metadata(&d) {
            if md.file_type().is_dir() {
                let _ = std::fs::set_permissions(&d, std::fs::Permissions::from_mode(0o700));
                if let Ok(rd) = std::fs::read_dir(&d) {
                    for e in rd.flatten() {
                        stack.push(e.path());
                    }
                }
            }
        }
    }
    let _ = std::fs::remove_dir_all(p);
}

/// lexical safety of a name as the property states it: relative, no NUL, never climbs above its start
fn name_is_safe(n: &str) -> bool {
    if n.contains('\0') || n.starts_with('/') {
        return false;
    }
    let mut depth: i64 = 0;
    for comp in n.split('/') {
        match comp {
            "" | "." => {}
            ".." => {
                depth -= 1;
                if depth < 0 {
                    return false;
                }
            }
            _ => depth += 1,
        }
    }
    true
}

/// hostile name, sometimes with backslashes in place of (some of) the slashes: on this host a backslash is an
/// ordinary character, so `..\x` is one harmless component - unless something rewrites it after validation
fn gen_xname(r: &mut Rng, used: &[String]) -> String {
    let n = gen_xname_slash(r, used);
    match r.below(10) {
        0 => n.replace('/', "\\"),
        1 => n.chars().map(|c| if c == '/' && r.chance(1, 2) { '\\' } else { c }).collect(),
        _ => n,
    }
}

fn gen_xname_slash(r: &mut Rng, used: &[String]) -> String {
    let w = gen_word(r);
    match r.below(36) {
        0 => format!("../{w}"),
        29 | 30 | 31 | 32 => {
            // any sequence of up to 6 components from {normal, '.', '..', ''} with optional leading slash
            let n = r.range(1, 6);
            let comps: Vec<String> = (0..n).map(|_| match r.below(6) { 0 => ".".to_string(), 1 | 2 => "..".to_string(), 3 => String::new(), _ => gen_word(r) }).collect();
            format!("{}{}{}", if r.chance(1, 8) { "/" } else { "" }, comps.join("/"), if r.chance(1, 8) { "/" } else { "" })
        }
        24 => "../sibling".into(),
        25 => "../sibling_dir/inner".into(),
        26 => "../sibling_dir".into(),
        27 => format!("{}canary15", "../".repeat(2)),
        28 => format!("{CANARY}/c0"),
        1 => format!("{}{w}", "../".repeat(r.range(1, 14) as usize)),
        2 => format!("d/{}{w}", "../".repeat(r.range(1, 6) as usize)),
        3 => format!("{CANARY}/{w}"),
        4 => format!("/{w}"),
        5 => format!("C:\\{w}"),
        6 => format!("\\\\server\\share\\{w}"),
        7 => format!("{w}\0tail"),
        8 => format!("\0{w}"),
        9 => format!("back\\{w}"),
        10 => String::new(),
        11 => ".".into(),
        12 if !used.is_empty() => r.pick(used).clone(),
        13 if !used.is_empty() => format!("{}/{w}", r.pick(used).trim_end_matches('/')),
        14 if !used.is_empty() => r.pick(used).trim_end_matches('/').to_string(),
        15 => format!("{}{w}", "deep/".repeat(r.range(2, 20) as usize)),
        16 => "c".repeat(255),
        17 => "c".repeat(256),
        18 => format!("a/./{w}"),
        19 => format!("a//{w}"),
        20 => format!("a/b/../../{w}"),
        21 => format!("{w}/.."),
        22 => "..".into(),
        23 => format!("dir{}/{w}", r.below(3)),
        _ => {
            if r.chance(1, 2) {
                format!("{w}.txt")
            } else {
                format!("dir{}/sub/{w}", r.below(3))
            }
        }
    }
}

impl Scenario for Extract {
    fn name(&self) -> &'static str {
        "extract"
    }
    fn total(&self, tier: Tier) -> u64 {
        match tier {
            Tier::Quick => 12_000,
            Tier::Thorough => 500_000,
        }
    }
    fn rule(&self) -> &'static str {
        "one case = an archive (written by the crate or by the independent builder with arbitrary mode bits) whose names are drawn from a hostile/benign shape grammar ('..' chains at every position, absolute Unix/Windows/UNC, NUL, backslash, empty, '.', duplicates, file/dir conflicts, symlink-typed entries, deep nesting, 255/256-byte components), extracted by ZipArchive::extract (SimDisk) or ZipStreamReader::extract (SimStream) under a short-read schedule, optionally with a reader fault mid-extraction, into a fresh 16-level-deep sandbox on the real file system whose parent tree is snapshotted before and after. Non-trivial = at least one object was created under the target; distinct = (name shape classes, kinds, extractor, schedule digest)"
    }
    fn gen(&self, seed: u64, idx: u64, _tier: Tier) -> Value {
        let s = mix(mix(seed, fnv(b"extract")), idx);
        let mut r = Rng::derive(s, "workload");
        let mut rs = Rng::derive(s, "swarm");
        let benign = rs.chance(1, 2);
        let n = r.range(1, 6);
        let mut used: Vec<String> = vec![];
        let mut entries = vec![];
        for i in 0..n {
            let kind = r.weighted(&[(6, 0u8), (3, 1), (1, 2)]);
            let mut name = if benign {
                match r.below(6) {
                    0 => format!("f{i}"),
                    1 => format!("dir{}/f{i}", r.below(3)),
                    2 => format!("dir{}/sub{}/f{i}", r.below(3), r.below(2)),
                    // sibling directories whose names are prefixes / extensions of one another, in any order (legal
                    // on the host: trailing dot or blank, dash, one more letter) - and the same one level down
                    3 => format!("{}{}/f{i}", r.pickc(&["rep", "data"]), r.pickc(&["", "", ".", " ", "-old", "x", ".d", "\u{e9}"])),
                    4 => format!("top/{}{}/f{i}", r.pickc(&["rep", "data"]), r.pickc(&["", "", ".", " ", "-old", "x"])),
                    _ => format!("{}{i}", gen_word(&mut r)),
                }
            } else {
                gen_xname(&mut r, &used)
            };
            if kind == 1 && benign && r.chance(1, 2) {
                // an explicit entry for a directory that other entries live in - before or after them
                name = if r.chance(1, 2) { format!("dir{}/", r.below(3)) } else { format!("dir{}/sub{}/", r.below(3), r.below(2)) };
            }
            if kind == 1 && !name.ends_with('/') {
                name.push('/');
            }
            used.push(name.clone());
            let perm = match r.below(6) {
                0 => None,
                1 => Some(0o644),
                2 => Some(0o755),
                3 => Some(r.below(512) as u32),
                4 => Some(0o700 | r.below(64) as u32),
                _ => Some(r.below(1 << 12) as u32),
            };
            entries.push(XEntry { name, kind, content: Content::gen(&mut r, *rs.clone().pick(&[16u64, 300, 5000])), perm, method: r.pickc(&METHODS), central_name: None });
        }
        let by_writer = r.chance(1, 2);
        if !by_writer && rs.chance(1, 5) {
            // local and central headers disagree on a name: one safe, the other hostile
            let k = r.usize_below(entries.len());
            let hostile = gen_xname(&mut r, &used);
            if r.chance(1, 2) {
                entries[k].central_name = Some(hostile);
            } else {
                entries[k].central_name = Some(std::mem::replace(&mut entries[k].name, hostile));
            }
            if entries[k].perm.is_none() {
                entries[k].perm = Some(0o777);
            }
        }
        let seekable = r.chance(1, 2);
        let fault = if rs.chance(1, 6) { Some((r.below(200), r.pickc(&[Decision::Fail(EK::Other), Decision::EofEarly, Decision::Eintr]))) } else { None };
        let mut precreate = vec![];
        if benign && rs.chance(1, 5) {
            for (i, e) in entries.iter().enumerate() {
                if e.kind == 1 && r.chance(1, 2) {
                    precreate.push((i, r.pickc(&[0o700u32, 0o755, 0o777, 0o733, 0o750])));
                }
            }
        }
        let target_form = if rs.chance(1, 4) { r.range(1, 4) as u8 } else { 0 };
        let mut prefiles = vec![];
        let mut rp = Rng::derive(s, "prefiles");
        if benign && rp.chance(1, 5) {
            for (i, e) in entries.iter().enumerate() {
                if e.kind == 0 && rp.chance(1, 2) {
                    let n = e.content.len();
                    let len = match rp.below(6) {
                        0 => 0,
                        1 => n.saturating_sub(1),
                        2 => n,
                        3 => n + 1,
                        4 => 2 * n + 100,
                        _ => rp.below(20_000),
                    };
                    prefiles.push((i, len, rp.pickc(&[0o644u32, 0o600, 0o666, 0o755, 0o640])));
                }
            }
        }
        let mut rh = Rng::derive(s, "host");
        let host = if by_writer { None } else { match rh.below(8) { 0 | 1 => Some(0u8), 2 => Some(rh.pickc(&[10u8, 19, 7, 11, 14, 255])), _ => None } };
        let mut ro = Rng::derive(s, "central-order");
        let central_order = if !by_writer && entries.len() > 1 && ro.chance(1, 3) { Some((ro.below(entries.len() as u64) as u32, ro.chance(1, 2))) } else { None };
        let unpriv = precreate.is_empty() && prefiles.is_empty() && Rng::derive(s, "unpriv").chance(1, 3);
        // (the sandbox's "/" is not searchable for other users: an unprivileged extraction has to name its target
        // relative to a working directory inside it)
        let target_form = if unpriv { 4 } else { target_form };
        let case = XCase { entries, by_writer, seekable, policy: gen_policy_short(&mut r), fault, precreate, target_form, prefiles, host, central_order, unpriv };
        serde_json::to_value(case).unwrap_or(Value::Null)
    }

    fn run(&self, case: &Value, ctx: &mut Ctx) -> Verdict {
        let c: XCase = match serde_json::from_value(case.clone()) {
            Ok(c) => c,
            Err(e) => return Verdict::Harness(format!("bad case: {e}")),
        };
        // ---- sandbox
        static RUN_NO: std::sync::atomic::AtomicU64 = std::sync::atomic::AtomicU64::new(0);
        let run_no = RUN_NO.fetch_add(1, std::sync::atomic::Ordering::Relaxed);
        // fixed-width components: the absolute canary path is embedded in entry names, and the archive
        // layout (hence the I/O schedule digest) must not depend on which worker process runs the case
        let root = PathBuf::from(format!("{}/target/sandbox/w{:010}/r{:010}", verif_root(), std::process::id(), run_no));
        force_remove(&root);
        let mut parent = root.clone();
        let canary_dir = root.join("canary");
        if std::fs::create_dir_all(&canary_dir).is_err() {
            return Verdict::Harness(format!("cannot create sandbox {root:?}"));
        }
        let plant = |dir: &Path, name: &str| {
            let p = dir.join(name);
            let _ = std::fs::write(&p, format!("canary {name}"));
            let _ = std::fs::set_permissions(&p, std::fs::Permissions::from_mode(0o640));
        };
        plant(&canary_dir, "c0");
        for lvl in 1..=15 {
            parent = parent.join(format!("d{lvl}"));
            let _ = std::fs::create_dir_all(&parent);
            plant(&parent, &format!("canary{lvl}"));
        }
        parent = parent.join("parent");
        let _ = std::fs::create_dir_all(&parent);
        plant(&parent, "sibling");
        let _ = std::fs::create_dir_all(parent.join("sibling_dir"));
        plant(&parent.join("sibling_dir"), "inner");
        let target = parent.join("target");
        let _ = std::fs::create_dir_all(&target);
        let canary_abs = canary_dir.to_string_lossy().into_owned();
        let names: Vec<String> = c.entries.iter().map(|e| e.name.replace(CANARY, &canary_abs)).collect();
        let cnames: Vec<String> = c.entries.iter().zip(names.iter()).map(|(e, n)| if c.by_writer { n.clone() } else { e.central_name.as_ref().map(|x| x.replace(CANARY, &canary_abs)).unwrap_or_else(|| n.clone()) }).collect();
        let names_agree = names == cnames;
        // ---- archive
        let image: Vec<u8> = if c.by_writer {
            let mut ops = vec![];
            for (e, name) in c.entries.iter().zip(names.iter()) {
                let o = Opts { method: e.method, perm: e.perm, ..Opts::default() };
                match e.kind {
                    1 => ops.push(Op::AddDir { name: name.clone(), o }),
                    2 => ops.push(Op::AddSymlink { name: name.clone(), target: "../../../../etc/passwd".into(), o }),
                    _ => {
                        ops.push(Op::StartFile { name: name.clone(), o });
                        ops.push(Op::Write { c: e.content.clone(), split: vec![] });
                    }
                }
            }
            Source::Prog(ops).image()
        } else {
            let mut l = Layout::default();
            for ((e, name), cname) in c.entries.iter().zip(names.iter()).zip(cnames.iter()) {
                let ty: u32 = match e.kind {
                    1 => 0o040000,
                    2 => 0o120000,
                    _ => 0o100000,
                };
                let mut be = BEntry { name: Hex(name.as_bytes().to_vec()), utf8: !name.is_ascii(), method: e.method, content: if e.kind == 1 { Content::Lit(Hex(vec![])) } else { e.content.clone() }, ..Default::default() };
                be.eattr = match e.perm {
                    Some(p) => (ty | p) << 16,
                    None => 0,
                };
                if let Some(h) = c.host {
                    be.sys = h;
                    if h == 0 {
                        // a DOS attribute word: directory / archive, read-only when the drawn mode has no write bit
                        let ro = e.kind != 1 && e.perm.map(|p| p & 0o222 == 0).unwrap_or(false);
                        be.eattr = if e.kind == 1 { 0x10 } else { 0x20 } | ro as u32;
                    }
                }
                if cname != name {
                    be.central_name = Some(Hex(cname.as_bytes().to_vec()));
                    be.utf8 = !name.is_ascii() || !cname.is_ascii();
                }
                l.entries.push(be);
            }
            if let Some((rot, rev)) = c.central_order {
                l.central_rot = rot;
                l.central_rev = rev;
            }
            build(&l).image
        };
        // expected contents per entry (writer: symlink content is the target string)
        let contents: Vec<Vec<u8>> = c.entries.iter().map(|e| if c.by_writer && e.kind == 2 { b"../../../../etc/passwd".to_vec() } else if e.kind == 1 { vec![] } else { e.content.bytes() }).collect();
        let modes: Vec<Option<u32>> = c
            .entries
            .iter()
            .map(|e| {
                if c.by_writer {
                    let (d, t) = match e.kind {
                        1 => (0o755, 0o40000),
                        2 => (0o777, 0o120000),
                        _ => (0o644, 0o100000),
                    };
                    Some((e.perm.map(|p| p & 0o777).unwrap_or(d)) | t)
                } else if let Some(h) = c.host {
                    // documented mapping: DOS attributes -> 0o775 (directory) / 0o664 (file), minus the write bits
                    // when read-only; hosts the library does not interpret record no mode
                    if h == 0 {
                        let ro = e.kind != 1 && e.perm.map(|p| p & 0o222 == 0).unwrap_or(false);
                        Some(if e.kind == 1 { 0o40775 } else { 0o100664 } & if ro { !0o222 } else { !0 })
                    } else if h == 3 {
                        e.perm.map(|p| p | match e.kind { 1 => 0o040000, 2 => 0o120000, _ => 0o100000 })
                    } else {
                        None
                    }
                } else {
                    e.perm.map(|p| p | match e.kind { 1 => 0o040000, 2 => 0o120000, _ => 0o100000 })
                }
            })
            .collect();
        for (i, m) in &c.precreate {
            if let Some(n) = names.get(*i) {
                if c.entries[*i].kind == 1 && name_is_safe(n) && !n.contains('\\') {
                    let p = target.join(n.trim_end_matches('/'));
                    if p.starts_with(&target) && std::fs::create_dir_all(&p).is_ok() {
                        let _ = std::fs::set_permissions(&p, std::fs::Permissions::from_mode(*m));
                        ctx.probe("directory_existed_before_extraction");
                    }
                }
            }
        }
        for (i, len, m) in &c.prefiles {
            if let Some(n) = names.get(*i) {
                if c.entries[*i].kind == 0 && name_is_safe(n) && !n.contains('\\') && !n.is_empty() && !n.ends_with('/') && n.len() < 1500 && n.split('/').all(|x| !x.is_empty() && x != "." && x != ".." && x.len() <= 255) {
                    let p = target.join(n);
                    if p.starts_with(&target) && p.parent().map(|d| std::fs::create_dir_all(d).is_ok()).unwrap_or(false) && !p.exists() {
                        if std::fs::write(&p, vec![b'#'; *len as usize]).is_ok() {
                            let _ = std::fs::set_permissions(&p, std::fs::Permissions::from_mode(*m));
                            ctx.probe("file_existed_before_extraction");
                        }
                    }
                }
            }
        }
        let before = snapshot(&root, &target);
        // ---- extract
        let pol = match &c.fault {
            Some((k, d)) => Policy::At { k: *k, d: *d },
            None => c.policy.clone(),
        };
        let store = shared_from(&image);
        let mut io_h = None;
        // the name under which the caller hands the target over (same directory, different spelling)
        let (cwd, target_arg): (Option<PathBuf>, PathBuf) = match c.target_form {
            1 => (Some(parent.join("sibling_dir")), PathBuf::from("../target")),
            2 => (Some(parent.clone()), PathBuf::from("./target")),
            3 => (Some(parent.clone()), PathBuf::from("sibling_dir/../target")),
            4 => (Some(target.clone()), PathBuf::from(".")),
            _ => (None, target.clone()),
        };
        if let Some(d) = &cwd {
            if std::env::set_current_dir(d).is_err() {
                force_remove(&root);
                return Verdict::Harness(format!("cannot enter {d:?}"));
            }
            ctx.probe("target_named_by_a_relative_path");
        }
        let drop_priv = c.unpriv && c.target_form == 4 && unsafe { libc::geteuid() } == 0;
        if drop_priv {
            let _ = std::fs::set_permissions(&target, std::fs::Permissions::from_mode(0o777));
            if unsafe { libc::seteuid(65534) } != 0 {
                force_remove(&root);
                return Verdict::Harness("seteuid(65534) failed".into());
            }
            ctx.probe("extracted_as_an_unprivileged_user");
        }
        let res = guard(|| {
            if c.seekable {
                let disk = SimDisk::new(store.clone(), pol.clone());
                io_h = Some(disk.io.clone());
                match ZipArchive::new(disk) {
                    Ok(mut ar) => ar.extract(&target_arg).map_err(|e| zerr_pub(&e)),
                    Err(e) => Err(format!("open: {}", zerr_pub(&e))),
                }
            } else {
                let st = SimStream::new(store.clone(), pol.clone());
                io_h = Some(st.inner.io.clone());
                ZipStreamReader::new(st).extract(&target_arg).map_err(|e| zerr_pub(&e))
            }
        });
        if drop_priv && unsafe { libc::seteuid(0) } != 0 {
            return Verdict::Harness("could not regain the harness's privileges after extraction".into());
        }
        if cwd.is_some() {
            let _ = std::env::set_current_dir("/");
        }
        if let Some(io) = &io_h {
            ctx.absorb(io);
        }
        let after = snapshot(&root, &target);
        // ---- oracles
        let verdict: Verdict = (|| {
            let res = match res {
                Ok(r) => r,
                Err(Verdict::Violation { class, detail }) => return viol(format!("C07/{class}"), detail),
                Err(v) => return v,
            };
            // confinement: everything in the sandbox outside the target is untouched
            if before != after {
                let mut diff = vec![];
                for (p, o) in &after {
                    match before.get(p) {
                        None => diff.push(format!("created {p:?}")),
                        Some(b) if b != o => diff.push(format!("modified {p:?}")),
                        _ => {}
                    }
                }
                for p in before.keys() {
                    if !after.contains_key(p) {
                        diff.push(format!("removed {p:?}"));
                    }
                }
                return viol("C07/escaped-target", format!("objects outside the extraction directory changed: {}", diff.iter().take(4).cloned().collect::<Vec<_>>().join("; ")));
            }
            // no symlink anywhere under the target
            let inside = snapshot(&target, Path::new("/nonexistent"));
            if let Some((p, _)) = inside.iter().find(|(_, o)| o.kind == 'l') {
                return viol("C07/symlink-created", format!("a symbolic link exists under the target: {p:?}"));
            }
            if !inside.is_empty() {
                ctx.probe("objects_created_under_target");
            }
            let faulty = c.fault.is_some() && io_h.as_ref().map(|io| stats(io).fired.values().sum::<u64>() > 0).unwrap_or(false);
            // unsafe names must make extraction fail
            let stream_ok = c.seekable || true;
            // the seekable extractor only ever sees the central names; the streaming one sees the local
            // names for the files and the central names for the metadata pass
            let unsafe_at = cnames.iter().position(|n| !name_is_safe(n)).or_else(|| if c.seekable { None } else { names.iter().position(|n| !name_is_safe(n)) });
            if let Some(i) = unsafe_at {
                ctx.probe("unsafe_name_present");
                if res.is_ok() && stream_ok {
                    return viol("C07/unsafe-name-accepted", format!("extract() returned Ok although entry {i} has the unsafe name {:?} / {:?}", names[i].chars().take(60).collect::<String>(), cnames[i].chars().take(60).collect::<String>()));
                }
                return Verdict::Pass;
            }
            if !names_agree {
                ctx.probe("local_central_names_disagree");
                return Verdict::Pass; // confinement + unsafe-name rule only
            }
            if faulty {
                ctx.probe("reader_fault_fired_during_extraction");
                if res.is_err() {
                    return Verdict::Pass; // confinement + no panic; objects from earlier entries may remain
                }
                // extract() returned Ok although the reader failed once (a retried EINTR, say): then the tree
                // must be complete all the same - "an error reported by some call or a result identical to the
                // failure-free run"
                ctx.probe("extraction_succeeded_despite_a_reader_fault");
            }
            // faithful half: safe and mutually consistent names
            let mut seen = BTreeSet::new();
            let mut dirs: BTreeSet<String> = BTreeSet::new();
            let mut files: BTreeSet<String> = BTreeSet::new();
            let mut consistent = true;
            for (e, n) in c.entries.iter().zip(names.iter()) {
                let is_dir = n.ends_with('/');
                let trimmed = n.trim_end_matches('/');
                let comps: Vec<&str> = trimmed.split('/').collect();
                if n.is_empty() || n.contains('\\') || comps.iter().any(|x| x.is_empty() || *x == "." || *x == ".." || x.len() > 255) || (is_dir && n.ends_with("//")) || n.len() > 1500 {
                    consistent = false;
                }
                if !seen.insert(trimmed.to_string()) {
                    consistent = false;
                }
                if is_dir != (e.kind == 1) {
                    consistent = false; // e.g. a file entry whose name ends in '/'
                }
                if is_dir {
                    dirs.insert(trimmed.to_string());
                } else {
                    files.insert(trimmed.to_string());
                }
                for k in 1..comps.len() {
                    dirs.insert(comps[..k].join("/"));
                }
            }
            if files.iter().any(|f| dirs.contains(f)) {
                consistent = false;
            }
            // directories must stay writable/searchable for their children to be created (the harness
            // may run as root, but the property's precondition says so)
            for (e, m) in c.entries.iter().zip(modes.iter()) {
                if e.kind == 1 {
                    if let Some(m) = m {
                        if m & 0o300 != 0o300 {
                            consistent = false;
                        }
                    }
                }
            }
            if !c.seekable {
                // the streaming extractor cannot serve data-descriptor / encrypted entries: none here
            }
            if !consistent {
                ctx.probe("names_not_mutually_consistent");
                return Verdict::Pass;
            }
            if let Err(e) = &res {
                return viol("C07/safe-archive-failed", format!("extract() failed on an archive with safe, consistent names: {e}"));
            }
            // the tree equals the reference tree
            let mut got_dirs = BTreeSet::new();
            let mut got_files = BTreeSet::new();
            for (p, o) in &inside {
                let rel = p.strip_prefix(&target).map(|x| x.to_string_lossy().into_owned()).unwrap_or_default();
                if o.kind == 'd' {
                    got_dirs.insert(rel);
                } else {
                    got_files.insert(rel);
                }
            }
            if got_dirs != dirs || got_files != files {
                return viol("C07/tree-mismatch", format!("extracted tree differs: dirs {:?} vs expected {:?}; files {:?} vs expected {:?}", got_dirs.iter().take(6).collect::<Vec<_>>(), dirs.iter().take(6).collect::<Vec<_>>(), got_files.iter().take(6).collect::<Vec<_>>(), files.iter().take(6).collect::<Vec<_>>()));
            }
            for ((n, cont), m) in names.iter().zip(contents.iter()).zip(modes.iter()) {
                let p = target.join(n.trim_end_matches('/'));
                let o = match inside.get(&p) {
                    Some(o) => o,
                    None => return viol("C07/tree-mismatch", format!("{p:?} missing")),
                };
                if o.kind == 'f' {
                    if o.size != cont.len() as u64 || o.hash != crc32(cont) {
                        return viol("C07/content-mismatch", format!("{n:?}: {} bytes on disk, {} in the archive (or different bytes)", o.size, cont.len()));
                    }
                }
                if let Some(m) = m {
                    if o.mode & 0o7777 != m & 0o7777 {
                        return viol("C07/permissions", format!("{n:?}: mode {:o} on disk, {:o} recorded ({} extractor)", o.mode & 0o7777, m & 0o7777, if c.seekable { "seekable" } else { "streaming" }));
                    }
                    ctx.probe("permissions_compared");
                }
            }
            ctx.probe("faithful_tree_verified");
            Verdict::Pass
        })();
        let created = !snapshot(&target, Path::new("/nonexistent")).is_empty();
        force_remove(&root);
        if created {
            let mut h = 0u64;
            for e in &c.entries {
                let shape: u64 = (e.name.contains("..") as u64) | (e.name.starts_with('/') as u64) << 1 | (e.name.contains('\0') as u64) << 2 | (e.name.contains('\\') as u64) << 3 | (e.name.contains(CANARY) as u64) << 4 | (e.name.matches('/').count().min(15) as u64) << 5;
                h = mix(h, shape | (e.kind as u64) << 16 | (e.perm.unwrap_or(0xfff0) as u64) << 20);
            }
            ctx.sig = Some(mix(mix(h, c.seekable as u64), ctx.digest));
        }
        verdict
    }

    fn shrink(&self, case: &Value) -> Vec<Value> {
        let c: XCase = match serde_json::from_value(case.clone()) {
            Ok(c) => c,
            Err(_) => return vec![],
        };
        let mut out = vec![];
        for i in (0..c.entries.len()).rev() {
            if c.entries.len() > 1 {
                let mut v = c.entries.clone();
                v.remove(i);
                let pc: Vec<(usize, u32)> = c.precreate.iter().filter(|(k, _)| *k != i).map(|(k, m)| (if *k > i { *k - 1 } else { *k }, *m)).collect();
                let pf: Vec<(usize, u64, u32)> = c.prefiles.iter().filter(|(k, _, _)| *k != i).map(|(k, l, m)| (if *k > i { *k - 1 } else { *k }, *l, *m)).collect();
                out.push(XCase { entries: v, precreate: pc, prefiles: pf, ..c.clone() });
            }
        }
        if !matches!(c.policy, Policy::Pure) {
            out.push(XCase { policy: Policy::Pure, ..c.clone() });
        }
        if c.fault.is_some() {
            out.push(XCase { fault: None, ..c.clone() });
        }
        if !c.precreate.is_empty() {
            out.push(XCase { precreate: vec![], ..c.clone() });
        }
        if !c.prefiles.is_empty() {
            out.push(XCase { prefiles: vec![], ..c.clone() });
        }
        if c.target_form != 0 {
            out.push(XCase { target_form: 0, ..c.clone() });
        }
        if c.host.is_some() {
            out.push(XCase { host: None, ..c.clone() });
        }
        if c.central_order.is_some() {
            out.push(XCase { central_order: None, ..c.clone() });
        }
        if c.unpriv {
            out.push(XCase { unpriv: false, ..c.clone() });
        }
        for i in 0..c.entries.len() {
            let e = &c.entries[i];
            let mut alts = vec![];
            if e.perm.is_some() {
                alts.push(XEntry { perm: None, ..e.clone() });
            }
            if e.method != 0 {
                alts.push(XEntry { method: 0, ..e.clone() });
            }
            for c2 in e.content.shrinks() {
                alts.push(XEntry { content: c2, ..e.clone() });
            }
            for a in alts {
                let mut v = c.entries.clone();
                v[i] = a;
                out.push(XCase { entries: v, ..c.clone() });
            }
        }
        out.into_iter().filter_map(|c| serde_json::to_value(c).ok()).collect()
    }
}
