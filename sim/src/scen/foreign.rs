//! C03: well-formed archives from an independent producer are read faithfully. The builder's own
//! record of what it wrote is the oracle. Also serves C08 (foreign ZIP64 layouts) in `z64` mode.

use super::common::*;
use crate::content::Hex;
use crate::indep::build::{build, Enc, Layout};
use crate::indep::{self};
use crate::ops::*;
use crate::rng::{fnv, mix, Rng};
use crate::runner::*;
use crate::simio::*;
use serde::{Deserialize, Serialize};
use serde_json::Value;
use zip::result::ZipError;
use zip::ZipArchive;

#[derive(Serialize, Deserialize, Clone, Debug, PartialEq)]
pub struct ForeignCase {
    pub layout: Layout,
    pub read: Policy,
    pub bufs: Vec<u32>,
}

pub struct Foreign {
    pub z64: bool,
}

fn decode_name(b: &[u8], utf8: bool) -> String {
    if utf8 {
        String::from_utf8_lossy(b).into_owned()
    } else {
        cp437(b)
    }
}

impl Scenario for Foreign {
    fn name(&self) -> &'static str {
        if self.z64 {
            "foreign_zip64"
        } else {
            "foreign"
        }
    }
    fn total(&self, tier: Tier) -> u64 {
        match (tier, self.z64) {
            (Tier::Quick, false) => 150_000,
            (Tier::Quick, true) => 60_000,
            (Tier::Thorough, false) => 2_500_000,
            (Tier::Thorough, true) => 400_000,
        }
    }
    fn rule(&self) -> &'static str {
        "one case = a layout descriptor for the independent builder (entry count, stored/deflate incl. hand-rolled stored-block deflate/bzip2/zstd/unsupported method ids, data descriptors with/without signature and 32/64-bit, ZIP64 fields forced on small files in every subset and position, forced ZIP64 end record + locator, unknown extra records, local extra != central extra, file and archive comments, made-by systems, any attributes and DOS time bits, central order != local order, gaps, prepended junk, trailing garbage, duplicate names, CP437 / UTF-8 names, ZipCrypto / AES entries) + short-read schedule + caller buffers. Non-trivial = the archive has at least one entry and every decodable entry was read back; distinct = hash of the layout's structural choices mixed with the schedule digest"
    }
    fn gen(&self, seed: u64, idx: u64, _tier: Tier) -> Value {
        let s = mix(mix(seed, fnv(self.name().as_bytes())), idx);
        let mut r = Rng::derive(s, "workload");
        let mut rs = Rng::derive(s, "swarm");
        let mc = *rs.pick(&[16u64, 16, 300, 300, 4096, 70_000]);
        let mut l = gen_layout(&mut r, if rs.chance(1, 20) { 40 } else { 6 }, mc, true);
        if self.z64 {
            // ZIP64 fields forced on small files in all 2^3 subsets (+ disk field), both end-record styles
            for e in l.entries.iter_mut() {
                e.z64_central = r.below(16) as u8;
                e.z64_local = r.chance(1, 2);
                e.z64_first = r.chance(1, 2);
            }
            l.force_z64_end = r.chance(2, 3);
            if l.force_z64_end {
                l.trailing = 0;
                l.z64_end_real = if r.chance(1, 2) { r.range(1, 7) as u8 } else { 0 };
            }
        }
        if self.z64 && rs.chance(1, 10) {
            // offsets that really do not fit in 32 bits: a hole of about 4 GiB between the prepended data and
            // the first local header (sparse disk), so every offset travels in a ZIP64 record
            const G4: u64 = 1 << 32;
            let mut rh = Rng::derive(s, "hole");
            l.hole = match rh.below(4) {
                0 => G4 - 1 - rh.below(300),
                1 => G4 + rh.below(300),
                2 => 5 * (1 << 30) + rh.below(1 << 20),
                _ => G4 - 400 + rh.below(800),
            };
            l.trailing = 0;
        }
        if rs.chance(1, 8) {
            lengthen_tail(&mut r, &mut l);
        }
        // duplicate names on purpose now and then
        if l.entries.len() > 1 && r.chance(1, 6) {
            let n = l.entries[0].name.clone();
            let u = l.entries[0].utf8;
            let k = r.usize_below(l.entries.len());
            l.entries[k].name = n;
            l.entries[k].utf8 = u;
        }
        let case = ForeignCase { layout: l, read: gen_policy_short(&mut r), bufs: gen_bufs(&mut r) };
        serde_json::to_value(case).unwrap_or(Value::Null)
    }
    fn run(&self, case: &Value, ctx: &mut Ctx) -> Verdict {
        let c: ForeignCase = match serde_json::from_value(case.clone()) {
            Ok(c) => c,
            Err(e) => return Verdict::Harness(format!("bad case: {e}")),
        };
        let pfx = if self.z64 { "C08" } else { "C03" };
        let l = &c.layout;
        let b = build(l);
        let img = &b.image;
        let len = img.len() as u64;
        // format-inherent ambiguity of the crate's search strategy, evaluated on the true structure
        {
            // (a) a later end-record signature (comment / trailing bytes)
            let from = (b.eocd_pos + 1) as usize;
            if len >= 22 && from + 4 <= img.len() {
                let to = (len - 22) as usize + 4;
                if to > from && img[from..to.min(img.len())].windows(4).any(|w| indep::le32(w, 0) == indep::SIG_EOCD) {
                    ctx.probe("ambiguity_skipped");
                    return Verdict::Skip("format-inherent ambiguity: end-record signature after the end record".into());
                }
            }
            // (b) the fixed-distance ZIP64 locator probe
            let probe = len as i64 - 42 - l.comment.0.len() as i64;
            let real_loc = if b.zip64_end { Some(b.eocd_pos as i64 - 20) } else { None };
            if probe >= 0 && Some(probe) != real_loc && (probe as usize) + 4 <= img.len() && indep::le32(img, probe as usize) == indep::SIG_Z64_LOC {
                ctx.probe("ambiguity_skipped");
                return Verdict::Skip("format-inherent ambiguity: locator signature at the probe position".into());
            }
            if b.zip64_end && l.prefix > 0 {
                // forward search for the ZIP64 end record starts at the nominal offset: an earlier PK66 wins
                let amb = if b.hole > 0 {
                    let st = b.store();
                    let g = st.lock().unwrap_or_else(|e| e.into_inner());
                    match indep::parse(&*g) {
                        Ok(p) => indep::ambiguous(&*g, &p).is_some(),
                        Err(e) => return Verdict::Harness(format!("builder output (with hole) does not parse: {e}")),
                    }
                } else {
                    match indep::parse(img.as_slice()) {
                        Ok(p) => indep::ambiguous(img.as_slice(), &p).is_some(),
                        Err(e) => return Verdict::Harness(format!("builder output does not parse: {e}")),
                    }
                };
                if amb {
                    ctx.probe("ambiguity_skipped");
                    return Verdict::Skip("format-inherent ambiguity: ZIP64 end-record signature before the record".into());
                }
            }
        }
        let store = b.store();
        if b.hole > 0 {
            ctx.probe("offsets_beyond_4gib_on_a_sparse_disk");
        }
        let disk = SimDisk::new(store.clone(), c.read.clone());
        let io = disk.io.clone();
        let mut ar = match guard(|| ZipArchive::new(disk)) {
            Ok(Ok(a)) => a,
            Ok(Err(e)) => {
                ctx.absorb(&io);
                return viol(format!("{pfx}/open-failed"), format!("well-formed foreign archive rejected: {}", zerr_pub(&e)));
            }
            Err(v) => return v,
        };
        let res: Result<(), Verdict> = (|| {
            let n = b.infos.len();
            if ar.len() != n {
                return Err(viol(format!("{pfx}/entry-count"), format!("reader reports {} entries, the directory lists {n}", ar.len())));
            }
            if ar.offset() != l.prefix as u64 {
                return Err(viol(format!("{pfx}/offset"), format!("offset() = {}, {} bytes were prepended", ar.offset(), l.prefix)));
            }
            if ar.comment() != l.comment.0.as_slice() {
                return Err(viol(format!("{pfx}/comment"), format!("archive comment: {} bytes, expected {}", ar.comment().len(), l.comment.0.len())));
            }
            let names: Vec<String> = b.order.iter().map(|ei| decode_name(&l.entries[*ei].name.0, l.entries[*ei].utf8)).collect();
            {
                let mut got: Vec<String> = ar.file_names().map(|s| s.to_string()).collect();
                got.sort();
                let mut want = names.clone();
                want.sort();
                want.dedup();
                if got != want {
                    return Err(viol(format!("{pfx}/file-names"), format!("file_names(): {} names, expected {}", got.len(), want.len())));
                }
            }
            let mut read_all_ok = true;
            for i in 0..n {
                let e = &l.entries[b.order[i]];
                let inf = &b.infos[i];
                let supported = matches!(e.method, 0 | 8 | 12 | 93);
                let pw: Option<Vec<u8>> = match &e.enc {
                    Some(Enc::ZipCrypto { pw, .. }) | Some(Enc::Aes { pw, .. }) => Some(pw.0.clone()),
                    None => None,
                };
                // metadata through the undecoded accessor (works for every entry)
                {
                    let f = match ar.by_index_raw(i) {
                        Ok(f) => f,
                        Err(er) => return Err(viol(format!("{pfx}/raw-open-failed"), format!("entry {i}: by_index_raw: {}", zerr_pub(&er)))),
                    };
                    let chk = |ok: bool, what: &str, got: String, want: String| -> Result<(), Verdict> {
                        if ok {
                            Ok(())
                        } else {
                            Err(viol(format!("{pfx}/{what}"), format!("entry {i}: {what} = {got}, the directory records {want}")))
                        }
                    };
                    chk(f.name() == names[i], "name", format!("{:?}", f.name()), format!("{:?}", names[i]))?;
                    chk(f.name_raw() == e.name.0.as_slice(), "name-raw", format!("{} bytes", f.name_raw().len()), format!("{} bytes", e.name.0.len()))?;
                    let cm = decode_name(&e.comment.0, e.utf8);
                    chk(f.comment() == cm, "file-comment", format!("{:?}", f.comment()), format!("{cm:?}"))?;
                    chk(f.size() == inf.usize, "size", f.size().to_string(), inf.usize.to_string())?;
                    chk(f.compressed_size() == inf.csize, "compressed-size", f.compressed_size().to_string(), inf.csize.to_string())?;
                    chk(f.crc32() == inf.crc_recorded, "crc32", format!("{:#x}", f.crc32()), format!("{:#x}", inf.crc_recorded))?;
                    #[allow(deprecated)]
                    let m = f.compression().to_u16();
                    chk(m == inf.real_method, "method", m.to_string(), inf.real_method.to_string())?;
                    let lm = f.last_modified();
                    chk((lm.datepart(), lm.timepart()) == e.dos, "timestamp", format!("{:#x},{:#x}", lm.datepart(), lm.timepart()), format!("{:#x},{:#x}", e.dos.0, e.dos.1))?;
                    chk(f.extra_data() == inf.central_extra.as_slice(), "extra-data", format!("{} bytes", f.extra_data().len()), format!("{} bytes", inf.central_extra.len()))?;
                    chk(f.header_start() == b.abs(inf.header_start), "header-start", f.header_start().to_string(), b.abs(inf.header_start).to_string())?;
                    chk(f.data_start() == b.abs(inf.data_start), "data-start", f.data_start().to_string(), b.abs(inf.data_start).to_string())?;
                    chk(f.central_header_start() == b.abs(inf.central_start), "central-header-start", f.central_header_start().to_string(), b.abs(inf.central_start).to_string())?;
                    chk(f.version_made_by() == (e.ver / 10, e.ver % 10), "version-made-by", format!("{:?}", f.version_made_by()), format!("{:?}", (e.ver / 10, e.ver % 10)))?;
                    // attribute -> Unix mode mapping
                    let got = f.unix_mode();
                    let mode_ok = if e.eattr == 0 {
                        got.is_none()
                    } else {
                        match e.sys {
                            3 => got == Some(e.eattr >> 16),
                            0 => {
                                let dir = e.eattr & 0x10 != 0;
                                let ro = e.eattr & 1 != 0;
                                let perm = if dir { 0o775 } else { 0o664 } & if ro { 0o555 } else { 0o777 };
                                match got {
                                    Some(g) => g & 0o777 == perm && (ro || g & 0o170000 == if dir { 0o40000 } else { 0o100000 }),
                                    None => false,
                                }
                            }
                            _ => got.is_none(),
                        }
                    };
                    chk(mode_ok, "unix-mode", format!("{:?}", got.map(|g| format!("{g:o}"))), format!("system {} attributes {:#x}", e.sys, e.eattr))?;
                    // raw bytes
                    let mut f = f;
                    let (raw, err, _) = read_all(&mut f, &c.bufs, inf.csize + 16);
                    if err.is_some() || raw != inf.raw {
                        return Err(viol(format!("{pfx}/raw-bytes"), format!("entry {i}: undecoded bytes differ from what was stored ({} vs {}), error {:?}", raw.len(), inf.raw.len(), err.map(|e| e.to_string()))));
                    }
                }
                // content
                let opened = match &pw {
                    Some(p) => match ar.by_index_decrypt(i, p) {
                        Ok(Ok(f)) => Ok(f),
                        Ok(Err(_)) => return Err(viol(format!("{pfx}/password-rejected"), format!("entry {i}: the right password was rejected"))),
                        Err(er) => Err(er),
                    },
                    None => ar.by_index(i),
                };
                match opened {
                    Ok(mut f) => {
                        if !supported {
                            return Err(viol(format!("{pfx}/unsupported-method-opened"), format!("entry {i}: method {} opened for decoding", e.method)));
                        }
                        let (data, err, _) = read_all(&mut f, &c.bufs, inf.usize + 1024);
                        if let Some(er) = err {
                            return Err(viol(format!("{pfx}/read-error"), format!("entry {i} (method {}, dd {}, enc {:?}): {er}", e.method, e.dd, e.enc.is_some())));
                        }
                        if data != inf.plain {
                            return Err(viol(format!("{pfx}/content-mismatch"), format!("entry {i}: {} bytes read, {} stored", data.len(), inf.plain.len())));
                        }
                        ctx.probe("entries_read_back");
                    }
                    Err(er) => {
                        if supported {
                            return Err(viol(format!("{pfx}/entry-open-failed"), format!("entry {i} (method {}): {}", e.method, zerr_pub(&er))));
                        }
                        read_all_ok = true;
                        match er {
                            ZipError::UnsupportedArchive(_) => ctx.probe("unsupported_method_failed_cleanly"),
                            other => return Err(viol(format!("{pfx}/unsupported-method-error-kind"), format!("entry {i}: method {} failed with {} instead of UnsupportedArchive", e.method, zerr_pub(&other)))),
                        }
                    }
                }
            }
            // lookups
            match ar.by_index(n).map(|_| ()) {
                Err(ZipError::FileNotFound) => {}
                other => return Err(viol(format!("{pfx}/out-of-range"), format!("by_index(len) = {:?}", other.map_err(|e| zerr_pub(&e))))),
            }
            match ar.by_name("\u{1}absent\u{2}").map(|_| ()) {
                Err(ZipError::FileNotFound) => {}
                other => return Err(viol(format!("{pfx}/absent-name"), format!("by_name(absent) = {:?}", other.map_err(|e| zerr_pub(&e))))),
            }
            let mut last = std::collections::BTreeMap::new();
            for (i, nm) in names.iter().enumerate() {
                last.insert(nm.clone(), i);
            }
            for (nm, i) in last.iter().take(32) {
                let e = &l.entries[b.order[*i]];
                if !matches!(e.method, 0 | 8 | 12 | 93) {
                    continue;
                }
                let got = match &e.enc {
                    Some(Enc::ZipCrypto { pw, .. }) | Some(Enc::Aes { pw, .. }) => ar.by_name_decrypt(nm, &pw.0).ok().and_then(|r| r.ok()).map(|f| f.central_header_start()),
                    None => ar.by_name(nm).ok().map(|f| f.central_header_start()),
                };
                if got != Some(b.abs(b.infos[*i].central_start)) {
                    return Err(viol(format!("{pfx}/by-name"), format!("by_name({nm:?}) resolved to central header at {got:?}, expected the last entry with that name (index {i}, at {})", b.infos[*i].central_start)));
                }
                if names.iter().filter(|x| *x == nm).count() > 1 {
                    ctx.probe("duplicate_names_checked");
                }
            }
            let _ = read_all_ok;
            Ok(())
        })();
        ctx.absorb(&io);
        if l.prefix > 0 {
            ctx.probe("archive_offset_gt_0_parsed");
        }
        if b.zip64_end {
            ctx.probe("zip64_end_record_parsed");
        }
        if l.trailing > 0 {
            ctx.probe("trailing_garbage_tolerated");
        }
        if l.entries.iter().any(|e| e.z64_central & 7 != 0) {
            ctx.probe("zip64_central_fields_decoded");
        }
        match res {
            Ok(()) => {
                if !b.infos.is_empty() {
                    let mut h = 0u64;
                    for e in &l.entries {
                        h = mix(h, e.method as u64 | (e.dd as u64) << 16 | (e.z64_central as u64) << 20 | (e.z64_local as u64) << 24 | (e.enc.is_some() as u64) << 25 | (e.sys as u64) << 32 | (e.content.len().min(1 << 20)) << 40);
                    }
                    h = mix(h, l.prefix.min(1000) as u64 | (l.force_z64_end as u64) << 20 | (l.trailing.min(100) as u64) << 24 | (l.central_rot as u64) << 32);
                    ctx.sig = Some(mix(h, ctx.digest));
                }
                Verdict::Pass
            }
            Err(v) => v,
        }
    }
    fn shrink(&self, case: &Value) -> Vec<Value> {
        let c: ForeignCase = match serde_json::from_value(case.clone()) {
            Ok(c) => c,
            Err(_) => return vec![],
        };
        let mut out = vec![];
        if !matches!(c.read, Policy::Pure) {
            out.push(ForeignCase { read: Policy::Pure, ..c.clone() });
        }
        if !c.bufs.is_empty() {
            out.push(ForeignCase { bufs: vec![], ..c.clone() });
        }
        for l2 in shrink_layout(&c.layout) {
            out.push(ForeignCase { layout: l2, ..c.clone() });
        }
        if !c.layout.comment.0.is_empty() {
            let mut l2 = c.layout.clone();
            l2.comment = Hex(vec![]);
            out.push(ForeignCase { layout: l2, ..c.clone() });
        }
        out.into_iter().filter_map(|c| serde_json::to_value(c).ok()).collect()
    }
}
