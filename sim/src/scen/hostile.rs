//! C05: untrusted bytes never crash, hang or exhaust memory. An image is damaged by the storage
//! fault layer (or is arbitrary bytes) and then the whole reading surface is driven over it inside
//! one monitored run. Results are unconstrained; panics, aborts, step-budget overruns and heap
//! blow-ups while opening are violations.

use super::common::*;
use crate::content::Hex;
use crate::indep::{self, build::Enc, Parsed};
use crate::ops::*;
use crate::rng::{fnv, mix, Rng};
use crate::runner::*;
use crate::simio::*;
use serde::{Deserialize, Serialize};
use serde_json::Value;
use std::io::Read;
use zip::unstable::stream::{ZipStreamFileMetadata, ZipStreamReader, ZipStreamVisitor};
use zip::{ZipArchive, ZipWriter};

#[derive(Serialize, Deserialize, Clone, Debug, PartialEq)]
pub enum SeedImg {
    Src(Source),
    Random { len: u64, seed: u64 },
    /// random bytes with a plausible end record grafted on
    RandomEocd { len: u64, seed: u64, entries: u16, cd_size: u32, cd_off: u32 },
    /// one of the repository's test archives
    Fixture(String),
    /// a long run of one record signature or marker (local / central / end / ZIP64 end / locator / descriptor /
    /// spanning markers), optionally with a few bytes of filler after each, in front of a small real archive:
    /// whatever a reader does per marker (skip, recurse, retry, allocate) it does `count` times
    MarkerRun { token: u32, pad: u8, count: u32, seed: u64 },
}

#[derive(Serialize, Deserialize, Clone, Debug, PartialEq)]
pub enum ImgFault {
    Truncate(u64),
    TornTail { keep: u64, garbage: u64, seed: u64 },
    BitFlip { pos: u64, bit: u8 },
    SetByte { pos: u64, val: u8 },
    ZeroRange { a: u64, b: u64 },
    DupBlock { a: u64, len: u64, at: u64 },
    SwapBlocks { a: u64, b: u64, len: u64 },
    /// image[..x] ++ other[y..]
    Splice { other: Box<SeedImg>, x: u64, y: u64 },
    /// little-endian value of `width` bytes written at absolute position
    SetField { pos: u64, width: u8, value: u64 },
    Append { bytes: Hex },
}

#[derive(Serialize, Deserialize, Clone, Debug, PartialEq)]
pub enum Plan {
    Faults(Vec<ImgFault>),
    /// every truncation point (crash / interrupted download)
    Prefixes { range: Option<(u64, u64)> },
    /// every byte value at every offset of the structural regions
    StructBytes { range: Option<(u64, u64)> },
    /// every header field set to every boundary value
    FieldLies { range: Option<(u64, u64)> },
    /// bytes LOST or gained in the middle (a record cut short, everything behind it shifted): every deletion of
    /// 1..=20 bytes and every insertion of 1, 2, 4 or 8 bytes at every offset of the last 160 bytes (end records,
    /// ZIP64 end record and locator, the tail of the directory)
    TailEdits { range: Option<(u64, u64)> },
}

#[derive(Serialize, Deserialize, Clone, Debug, PartialEq)]
pub struct HostCase {
    pub seed: SeedImg,
    pub plan: Plan,
    pub pw: Hex,
    pub bufs: Vec<u32>,
}

pub struct Hostile {
    /// false: C05 monitors (panic / abort / budget / heap); true: C04's CRC invariant on every entry of every damaged image
    pub crc: bool,
}

pub fn seed_image(s: &SeedImg) -> Vec<u8> {
    match s {
        SeedImg::Src(src) => src.image(),
        SeedImg::Random { len, seed } => Rng::new(*seed).bytes(*len as usize),
        SeedImg::RandomEocd { len, seed, entries, cd_size, cd_off } => {
            let mut v = Rng::new(*seed).bytes(*len as usize);
            v.extend_from_slice(&indep::SIG_EOCD.to_le_bytes());
            v.extend_from_slice(&[0, 0, 0, 0]);
            v.extend_from_slice(&entries.to_le_bytes());
            v.extend_from_slice(&entries.to_le_bytes());
            v.extend_from_slice(&cd_size.to_le_bytes());
            v.extend_from_slice(&cd_off.to_le_bytes());
            v.extend_from_slice(&[0, 0]);
            v
        }
        SeedImg::Fixture(name) => std::fs::read(format!("/repo/tests/data/{name}")).unwrap_or_default(),
        SeedImg::MarkerRun { token, pad, count, seed } => {
            let mut v = Vec::with_capacity((*count as usize) * (4 + *pad as usize) + 200);
            for _ in 0..*count {
                v.extend_from_slice(&token.to_le_bytes());
                v.extend(std::iter::repeat(0u8).take(*pad as usize));
            }
            let mut l = crate::indep::build::Layout::default();
            l.entries.push(crate::indep::build::BEntry { name: Hex(format!("after{}", seed % 10).into_bytes()), content: crate::content::Content::Lit(Hex(b"payload".to_vec())), ..Default::default() });
            v.extend_from_slice(&crate::indep::build::build(&l).image);
            v
        }
    }
}

pub fn apply_fault(img: &mut Vec<u8>, f: &ImgFault) {
    let n = img.len() as u64;
    match f {
        ImgFault::Truncate(k) => img.truncate((*k).min(n) as usize),
        ImgFault::TornTail { keep, garbage, seed } => {
            img.truncate((*keep).min(n) as usize);
            img.extend_from_slice(&Rng::new(*seed).bytes(*garbage as usize));
        }
        ImgFault::BitFlip { pos, bit } => {
            if *pos < n {
                img[*pos as usize] ^= 1 << (bit % 8);
            }
        }
        ImgFault::SetByte { pos, val } => {
            if *pos < n {
                img[*pos as usize] = *val;
            }
        }
        ImgFault::ZeroRange { a, b } => {
            let (a, b) = ((*a).min(n) as usize, (*b).min(n) as usize);
            if a < b {
                img[a..b].iter_mut().for_each(|x| *x = 0);
            }
        }
        ImgFault::DupBlock { a, len, at } => {
            let a = (*a).min(n) as usize;
            let e = (a + *len as usize).min(n as usize);
            let blk = img[a..e].to_vec();
            let at = (*at).min(n) as usize;
            let tail = img.split_off(at);
            img.extend_from_slice(&blk);
            img.extend_from_slice(&tail);
        }
        ImgFault::SwapBlocks { a, b, len } => {
            let (a, b, l) = (*a as usize, *b as usize, *len as usize);
            if a + l <= b && b + l <= n as usize {
                for i in 0..l {
                    img.swap(a + i, b + i);
                }
            }
        }
        ImgFault::Splice { other, x, y } => {
            let o = seed_image(other);
            img.truncate((*x).min(n) as usize);
            let y = (*y).min(o.len() as u64) as usize;
            img.extend_from_slice(&o[y..]);
        }
        ImgFault::SetField { pos, width, value } => {
            let b = value.to_le_bytes();
            for i in 0..*width as usize {
                let p = *pos as usize + i;
                if p < img.len() {
                    img[p] = b[i];
                }
            }
        }
        ImgFault::Append { bytes } => img.extend_from_slice(&bytes.0),
    }
}

/// (absolute position, width) of every header field of a parsed image, plus structural byte ranges
pub fn fields_of(img: &[u8], p: &Parsed) -> (Vec<(u64, u8, &'static str)>, Vec<(u64, u64)>) {
    let mut f: Vec<(u64, u8, &'static str)> = vec![];
    let mut regions: Vec<(u64, u64)> = vec![];
    const LOCAL: &[(u64, u8, &str)] = &[(4, 2, "l.ver"), (6, 2, "l.flags"), (8, 2, "l.method"), (10, 2, "l.time"), (12, 2, "l.date"), (14, 4, "l.crc"), (18, 4, "l.csize"), (22, 4, "l.usize"), (26, 2, "l.nlen"), (28, 2, "l.elen")];
    const CENTRAL: &[(u64, u8, &str)] = &[
        (4, 2, "c.made"),
        (6, 2, "c.need"),
        (8, 2, "c.flags"),
        (10, 2, "c.method"),
        (12, 2, "c.time"),
        (14, 2, "c.date"),
        (16, 4, "c.crc"),
        (20, 4, "c.csize"),
        (24, 4, "c.usize"),
        (28, 2, "c.nlen"),
        (30, 2, "c.elen"),
        (32, 2, "c.clen"),
        (34, 2, "c.disk"),
        (36, 2, "c.iattr"),
        (38, 4, "c.eattr"),
        (42, 4, "c.off"),
    ];
    for (i, c) in p.centrals.iter().enumerate() {
        for (o, w, n) in CENTRAL {
            f.push((c.pos + o, *w, n));
        }
        regions.push((c.pos, c.pos + c.len));
        // extra-field internals: every record header and the first 8 bytes of every record body
        let ex0 = c.pos + 46 + c.name.len() as u64;
        let mut o = 0usize;
        while o + 4 <= c.extra.len() {
            let n = indep::le16(&c.extra, o + 2) as usize;
            f.push((ex0 + o as u64, 2, "c.extra.id"));
            f.push((ex0 + o as u64 + 2, 2, "c.extra.len"));
            let mut b = 0;
            while b < n.min(24) && o + 4 + b + 2 <= c.extra.len() {
                f.push((ex0 + (o + 4 + b) as u64, if b + 8 <= n { 8 } else { 2 }, "c.extra.body"));
                b += 8;
            }
            o += 4 + n;
        }
        if let Some(Ok(l)) = p.locals.get(i) {
            for (o, w, n) in LOCAL {
                f.push((l.pos + o, *w, n));
            }
            regions.push((l.pos, l.data_start));
            let ex0 = l.pos + 30 + l.name.len() as u64;
            let mut o = 0usize;
            while o + 4 <= l.extra.len() {
                let n = indep::le16(&l.extra, o + 2) as usize;
                f.push((ex0 + o as u64, 2, "l.extra.id"));
                f.push((ex0 + o as u64 + 2, 2, "l.extra.len"));
                o += 4 + n;
            }
            // the first bytes of the data (crypto headers, stream headers)
            regions.push((l.data_start, (l.data_start + 20).min(l.data_start + c.csize)));
        }
    }
    for (o, w, n) in [(4u64, 2u8, "e.disk"), (6, 2, "e.cddisk"), (8, 2, "e.ndisk"), (10, 2, "e.n"), (12, 4, "e.cdsize"), (16, 4, "e.cdoff"), (20, 2, "e.clen")] {
        f.push((p.eocd_pos + o, w, n));
    }
    regions.push((p.eocd_pos, (p.eocd_pos + 22).min(img.len() as u64)));
    if let Some(z) = &p.z64 {
        for (o, w, n) in [(4u64, 8u8, "z.size"), (12, 2, "z.made"), (14, 2, "z.need"), (16, 4, "z.disk"), (20, 4, "z.cddisk"), (24, 8, "z.ndisk"), (32, 8, "z.n"), (40, 8, "z.cdsize"), (48, 8, "z.cdoff")] {
            f.push((z.rec_pos + o, w, n));
        }
        for (o, w, n) in [(4u64, 4u8, "zl.disk"), (8, 8, "zl.off"), (16, 4, "zl.disks")] {
            f.push((z.loc_pos + o, w, n));
        }
        regions.push((z.rec_pos, z.rec_pos + 56));
        regions.push((z.loc_pos, z.loc_pos + 20));
    }
    (f, regions)
}

pub fn boundary_values(width: u8, img_len: u64, cur: u64) -> Vec<u64> {
    let mut v: Vec<u64> = vec![0, 1, 2, 8, 12, 99, cur.wrapping_add(1), cur.wrapping_sub(1), img_len, img_len.wrapping_add(1), img_len.wrapping_sub(1)];
    match width {
        2 => v.extend([0x7fff, 0x8000, 0xfffe, 0xffff, 0x9901, 0x0001, 93, 14]),
        4 => v.extend([0xffff, 0x10000, 0x7fff_ffff, 0x8000_0000, 0xffff_fffe, 0xffff_ffff]),
        _ => v.extend([0xffff_ffff, 0x1_0000_0000, 0x7fff_ffff_ffff_ffff, 0x8000_0000_0000_0000, u64::MAX - 1, u64::MAX, u64::MAX - img_len]),
    }
    let mask = if width >= 8 { u64::MAX } else { (1u64 << (8 * width as u32)) - 1 };
    let mut v: Vec<u64> = v.into_iter().map(|x| x & mask).collect();
    v.sort();
    v.dedup();
    v.retain(|x| *x != cur);
    v
}

struct LogVisitor {
    files: usize,
    meta: usize,
    cap: u64,
}
impl ZipStreamVisitor for LogVisitor {
    fn visit_file(&mut self, file: &mut zip::read::ZipFile<'_>) -> zip::result::ZipResult<()> {
        self.files += 1;
        let _ = file.name().len();
        let _ = file.enclosed_name();
        let _ = file.mangled_name();
        let mut buf = [0u8; 4096];
        let mut got = 0u64;
        loop {
            match file.read(&mut buf) {
                Ok(0) => break,
                Ok(n) => {
                    got += n as u64;
                    if got > self.cap {
                        break;
                    }
                }
                Err(_) => break,
            }
        }
        if self.files > 5000 {
            return Err(zip::result::ZipError::FileNotFound);
        }
        Ok(())
    }
    fn visit_additional_metadata(&mut self, m: &ZipStreamFileMetadata) -> zip::result::ZipResult<()> {
        self.meta += 1;
        let _ = (m.name().len(), m.name_raw().len(), m.mangled_name(), m.enclosed_name(), m.is_dir(), m.is_file(), m.comment().len(), m.data_start(), m.unix_mode());
        if self.meta > 100_000 {
            return Err(zip::result::ZipError::FileNotFound);
        }
        Ok(())
    }
}

fn touch(f: &mut zip::read::ZipFile<'_>, bufs: &[u32], cap: u64) -> u64 {
    touch2(f, bufs, cap, false)
}

/// `streamed`: the entry was served by the streaming reader, which refuses encrypted entries, so no
/// AES exemption from the CRC invariant applies
fn touch2(f: &mut zip::read::ZipFile<'_>, bufs: &[u32], cap: u64, streamed: bool) -> u64 {
    let mut h = 0u64;
    h = mix(h, f.name().len() as u64);
    h = mix(h, f.name_raw().len() as u64);
    let _ = f.version_made_by();
    let _ = f.mangled_name();
    let _ = f.enclosed_name();
    #[allow(deprecated)]
    let _ = f.sanitized_name();
    h = mix(h, f.comment().len() as u64);
    #[allow(deprecated)]
    let m = f.compression().to_u16();
    h = mix(h, m as u64);
    let _ = format!("{}", f.compression());
    h = mix(h, f.compressed_size());
    h = mix(h, f.size());
    let lm = f.last_modified();
    let _ = lm.to_time();
    let _ = (lm.year(), lm.month(), lm.day(), lm.hour(), lm.minute(), lm.second(), lm.datepart(), lm.timepart());
    let _ = (f.is_dir(), f.is_file(), f.unix_mode(), f.crc32(), f.extra_data().len(), f.data_start(), f.header_start(), f.central_header_start());
    let declared = f.crc32();
    let exempt = !streamed && f.extra_data().windows(2).any(|w| w == [0x01, 0x99]);
    let (data, err, _) = read_all(f, bufs, cap);
    h = mix(h, data.len() as u64);
    h = mix(h, err.is_some() as u64);
    // C04: a read that reached EOF without error returned bytes whose CRC is the declared one
    // (entries carrying an AES extra record are exempt here: AE-2 has no CRC; C16 covers them)
    if err.is_none() && !read_gave_up() && (data.len() as u64) <= cap && !exempt && crate::content::crc32(&data) != declared {
        CRC_BAD.with(|c| {
            let mut c = c.borrow_mut();
            if c.is_none() {
                *c = Some(format!("entry {:?}: read to EOF succeeded with {} bytes whose CRC {:#x} != declared {:#x}", f.name().chars().take(30).collect::<String>(), data.len(), crate::content::crc32(&data), declared));
            }
        });
    }
    h
}

/// The provided methods of `std::io::Read` are part of the reading surface too (a type may override them):
/// `read_to_end`, `read_to_string`, `read_exact`, `io::copy` into a `Vec`, `bytes()`. They are unbounded by
/// nature, so they are only called where the *real* output is bounded by the input whatever the headers claim:
/// undecoded entries (at most the file), Stored entries (at most the file), Deflate (at most 1032 x the input)
/// on images of at most 64 KiB. A declared size must never be trusted as an allocation size.
fn std_read_paths(ar: &mut ZipArchive<SimDisk>, i: usize, len: u64) -> u64 {
    let mut h = 0u64;
    let bounded = |f: &zip::read::ZipFile<'_>| {
        #[allow(deprecated)]
        let m = f.compression().to_u16();
        (m == 0 || m == 8) && len <= 65536
    };
    let note_crc = |f: &zip::read::ZipFile<'_>, data: &[u8], how: &str| {
        let exempt = f.extra_data().windows(2).any(|w| w == [0x01, 0x99]);
        if !exempt && crate::content::crc32(data) != f.crc32() {
            CRC_BAD.with(|c| {
                let mut c = c.borrow_mut();
                if c.is_none() {
                    *c = Some(format!("entry {:?}: {how} succeeded with {} bytes whose CRC {:#x} != declared {:#x}", f.name().chars().take(30).collect::<String>(), data.len(), crate::content::crc32(data), f.crc32()));
                }
            });
        }
    };
    if let Ok(mut f) = ar.by_index(i) {
        if bounded(&f) {
            let mut v = Vec::new();
            let r = f.read_to_end(&mut v);
            if r.is_ok() {
                note_crc(&f, &v, "read_to_end");
            }
            h = mix(h, mix(v.len() as u64, r.is_ok() as u64));
        }
    }
    if let Ok(mut f) = ar.by_index(i) {
        if bounded(&f) {
            let mut v: Vec<u8> = Vec::new();
            let r = std::io::copy(&mut f, &mut v);
            if r.is_ok() {
                note_crc(&f, &v, "io::copy");
            }
            h = mix(h, mix(v.len() as u64, r.is_ok() as u64));
        }
    }
    if let Ok(mut f) = ar.by_index(i) {
        if bounded(&f) {
            let mut t = String::new();
            let r = f.read_to_string(&mut t);
            h = mix(h, mix(t.len() as u64, r.is_ok() as u64));
        }
    }
    if let Ok(mut f) = ar.by_index(i) {
        let mut b = [0u8; 7];
        let r = f.read_exact(&mut b);
        h = mix(h, r.is_ok() as u64);
        let mut n = 0u64;
        for x in (&mut f).bytes().take(300) {
            if x.is_err() {
                break;
            }
            n += 1;
        }
        h = mix(h, n);
    }
    if let Ok(mut f) = ar.by_index_raw(i) {
        let mut v = Vec::new();
        let r = f.read_to_end(&mut v);
        h = mix(h, mix(v.len() as u64, r.is_ok() as u64));
    }
    h
}

thread_local! {
    pub static CRC_BAD: std::cell::RefCell<Option<String>> = std::cell::RefCell::new(None);
}

/// Drive the whole reading surface over one image. Returns (signature, parser got past the end record).
pub fn drive(img: &[u8], pw: &[u8], bufs: &[u32], ctx: &mut Ctx) -> Result<(u64, bool), Verdict> {
    let len = img.len() as u64;
    let store = shared_from(img);
    let budget = 4_000_000 + 16 * len;
    let cap = 4u64 << 20;
    let mut sig = 0u64;
    let mut past = false;
    // --- seekable reader
    let disk = SimDisk::new(store.clone(), Policy::Pure);
    let io = disk.io.clone();
    set_budget(&io, budget);
    let base = heap::reset();
    let opened = ZipArchive::new(disk);
    let peak = heap::peak().saturating_sub(base) as u64;
    let bound = 1024 * len + (8 << 20);
    if peak > bound {
        return Err(viol("C05/heap-while-opening", format!("ZipArchive::new allocated {peak} bytes for a {len}-byte input (bound {bound})")));
    }
    if let Ok(mut ar) = opened {
        past = true;
        ctx.probe("opened_ok");
        let n = ar.len();
        sig = mix(sig, n as u64);
        let _ = (ar.comment().len(), ar.offset(), ar.is_empty());
        // file_names() iterates a randomly seeded hash map: sort before sampling, or the run is not replayable
        let mut names: Vec<String> = ar.file_names().map(|s| s.to_string()).collect();
        names.sort();
        names.truncate(64);
        for i in 0..n.min(48) {
            if let Ok(mut f) = ar.by_index(i) {
                ctx.probe("entry_opened");
                sig = mix(sig, touch(&mut f, bufs, cap));
                drop(f);
            }
            if let Ok(mut f) = ar.by_index_raw(i) {
                // undecoded bytes: no CRC relation
                let (d, e, _) = read_all(&mut f, bufs, cap);
                sig = mix(sig, mix(d.len() as u64, e.is_some() as u64));
            }
            match ar.by_index_decrypt(i, pw) {
                Ok(Ok(mut f)) => {
                    sig = mix(sig, touch(&mut f, bufs, cap));
                }
                Ok(Err(_)) => sig = mix(sig, 77),
                Err(_) => {}
            }
            // early drop after a partial read
            if let Ok(mut f) = ar.by_index(i) {
                let mut b = [0u8; 3];
                let _ = f.read(&mut b);
            }
            if i < 6 {
                sig = mix(sig, std_read_paths(&mut ar, i, len));
            }
        }
        let _ = ar.by_index(n);
        let _ = ar.by_index(usize::MAX);
        for name in names.iter().take(16) {
            if let Ok(mut f) = ar.by_name(name) {
                sig = mix(sig, touch(&mut f, bufs, 1 << 16));
            }
            if let Ok(Ok(mut f)) = ar.by_name_decrypt(name, pw) {
                sig = mix(sig, touch(&mut f, bufs, 1 << 16));
            }
        }
        let _ = ar.by_name("no such entry");
        let mut ar2 = ar.clone();
        if let Ok(mut f) = ar2.by_index(0) {
            let mut b = [0u8; 16];
            let _ = f.read(&mut b);
        }
        let _ = ar.into_inner();
    }
    ctx.absorb(&io);
    // --- streaming reader
    {
        let mut st = SimStream::new(store.clone(), Policy::Pure);
        set_budget(&st.inner.io, budget);
        let mut count = 0;
        loop {
            match zip::read::read_zipfile_from_stream(&mut st) {
                Ok(Some(mut f)) => {
                    count += 1;
                    ctx.probe("stream_entry_opened");
                    #[allow(deprecated)]
                    let m = f.compression().to_u16();
                    if count % 3 == 2 && (m == 0 || m == 8) && len <= 65536 {
                        // std's provided read_to_end on a streamed entry (see std_read_paths)
                        let mut v = Vec::new();
                        let r = f.read_to_end(&mut v);
                        sig = mix(sig, mix(v.len() as u64, r.is_ok() as u64));
                    } else if count % 2 == 0 || len % 3 == 0 {
                        sig = mix(sig, touch2(&mut f, bufs, cap, true));
                    } else {
                        let _ = f.name().len();
                        let mut b = [0u8; 5];
                        let _ = f.read(&mut b);
                    }
                }
                Ok(None) => break,
                Err(_) => break,
            }
            if count > 5000 {
                break;
            }
        }
        sig = mix(sig, count);
        ctx.absorb(&st.inner.io);
        let st2 = SimStream::new(store.clone(), Policy::Pure);
        set_budget(&st2.inner.io, budget);
        let io2 = st2.inner.io.clone();
        let mut v = LogVisitor { files: 0, meta: 0, cap };
        let _ = ZipStreamReader::new(st2).visit(&mut v);
        sig = mix(sig, (v.files * 1000 + v.meta) as u64);
        ctx.absorb(&io2);
    }
    // --- open for append (on a copy: finalisation writes)
    {
        let copy = shared_from(img);
        let disk = SimDisk::new(copy.clone(), Policy::Pure);
        let io = disk.io.clone();
        set_budget(&io, budget);
        let base = heap::reset();
        let r = ZipWriter::new_append(disk);
        let peak = heap::peak().saturating_sub(base) as u64;
        if peak > bound {
            return Err(viol("C05/heap-while-opening", format!("ZipWriter::new_append allocated {peak} bytes for a {len}-byte input (bound {bound})")));
        }
        if let Ok(mut w) = r {
            ctx.probe("append_opened");
            if len % 2 == 0 {
                let _ = w.start_file("x", zip::write::FileOptions::default().compression_method(zip::CompressionMethod::Stored).last_modified_time(zip::DateTime::default()));
                let _ = std::io::Write::write(&mut w, b"abc");
            }
            let _ = w.finish();
        }
        ctx.absorb(&io);
    }
    Ok((sig, past))
}

impl Scenario for Hostile {
    fn name(&self) -> &'static str {
        if self.crc {
            "hostile_crc"
        } else {
            "hostile"
        }
    }
    fn total(&self, tier: Tier) -> u64 {
        match tier {
            Tier::Quick => {
                if self.crc {
                    600
                } else {
                    1_000
                }
            }
            Tier::Thorough => 40_000,
        }
    }
    fn rule(&self) -> &'static str {
        "one case = a seed image (writer program, independently built layout incl. ZIP64/AES/ZipCrypto/data descriptors, repository fixture, random bytes, random bytes + grafted end record) plus a damage plan: a list of storage faults (truncate, torn tail, bit flip, byte set, zeroed range, duplicated/swapped blocks, splice of two archives, header field set to a boundary value) or an enumerated sub-space (every prefix; every byte value at every structural offset; every header field x every boundary value). One evaluation = the whole reading surface driven over one damaged image. Non-trivial = ZipArchive::new got past the end-record search and directory parse (returned Ok); distinct = hash of the observable results of all calls"
    }
    fn exhaustive_note(&self) -> Option<&'static str> {
        Some("enumerated per seed image: all prefixes; all 255 substitutions at every structural byte (headers, extra fields, end records, first 20 data bytes); all header fields x boundary values")
    }
    fn gen(&self, seed: u64, idx: u64, _tier: Tier) -> Value {
        let s = mix(mix(seed, fnv(self.name().as_bytes())), idx);
        let mut r = Rng::derive(s, "workload");
        let mut rs = Rng::derive(s, "swarm");
        let mk_seed = |r: &mut Rng, small: bool| -> SeedImg {
            let mc = if small { 40 } else { *r.pick(&[16u64, 300, 5000]) };
            match r.below(12) {
                0..=3 => {
                    let cfg = GenCfg { max_entries: if small { 2 } else { 4 }, max_content: mc, methods: METHODS.to_vec(), extra: true, aligned: false, enc: true, n_sources: 0, src_lens: vec![], append: false, long_names: false, comment_max: 20, misc_ops: false };
                    let mut ops = gen_program(r, &cfg);
                    if ops.is_empty() {
                        ops.push(Op::StartFile { name: "a".into(), o: Opts::default() });
                    }
                    SeedImg::Src(Source::Prog(ops))
                }
                4..=8 => {
                    let mut l = gen_layout(r, if small { 2 } else { 4 }, mc, true);
                    if l.entries.is_empty() {
                        l.entries.push(Default::default());
                    }
                    if small {
                        l.prefix = l.prefix.min(8);
                        // enumerated sub-spaces are per structural byte: keep the headers small
                        for e in l.entries.iter_mut() {
                            if e.name.0.len() > 64 {
                                e.name.0.truncate(64);
                            }
                            if e.extra_local.0.len() > 64 {
                                e.extra_local = Hex(vec![]);
                            }
                            e.trailing_pad = e.trailing_pad.min(8);
                        }
                    }
                    if r.chance(1, 5) {
                        // left-over AES record on an entry that is not encrypted (local, central or both)
                        for e in l.entries.iter_mut().filter(|e| e.enc.is_none()) {
                            let mut rec = vec![0x01, 0x99, 0x07, 0x00, r.range(1, 2) as u8, 0x00, b'A', b'E', r.range(1, 3) as u8];
                            rec.extend_from_slice(&e.method.to_le_bytes());
                            let wh = r.below(3);
                            if wh != 1 {
                                e.extra_local.0.extend_from_slice(&rec);
                            }
                            if wh != 0 {
                                e.extra_central.0.extend_from_slice(&rec);
                            }
                        }
                    }
                    if r.chance(1, 4) {
                        // records that real archivers write and that a reader may one day interpret (Unicode path /
                        // comment with the CRC of the header's own name, timestamps, Unix ids, NTFS times ...), well
                        // formed or claiming a length other than their body's, in the local header, the central one or both
                        let mut rx = Rng::derive(r.next_u64(), "real-world-extra");
                        for e in l.entries.iter_mut() {
                            if rx.chance(1, 2) {
                                let lie = rx.chance(1, 2);
                                let rec = real_world_records(&mut rx, &e.name.0, &e.comment.0, lie);
                                if rec.len() <= if small { 48 } else { 400 } {
                                    let wh = rx.below(3);
                                    if wh != 1 {
                                        e.extra_local.0.extend_from_slice(&rec);
                                    }
                                    if wh != 0 {
                                        e.extra_central.0.extend_from_slice(&rec);
                                    }
                                }
                            }
                        }
                    }
                    if !small && r.chance(1, 10) {
                        // a central extra field that fills its 16-bit length almost completely (no room left for another
                        // record when the directory is re-emitted after new_append), ending in a ZIP64 record - or one of
                        // the records real archivers write - whose claimed length may overrun the field; escapes in the
                        // 32-bit fields so that the ZIP64 values are asked for
                        let mut rx = Rng::derive(r.next_u64(), "near-limit-extra");
                        let k = rx.usize_below(l.entries.len());
                        let e = &mut l.entries[k];
                        e.z64_central = rx.below(8) as u8;
                        e.z64_first = rx.chance(1, 2);
                        let mut tail: Vec<u8> = match rx.below(3) {
                            0 => {
                                // the FIRST ZIP64 record a reader meets (the builder's own follows it): as many values
                                // as the escapes ask for, or too few, beyond 4 GiB, under an honest or an overrunning
                                // length
                                e.z64_central |= 1 << rx.below(3);
                                e.z64_first = false;
                                let n = (e.z64_central & 7).count_ones() as usize;
                                let have = rx.pickc(&[8 * n, 8 * n, 8 * n + 4, 8 * n - 8, 0]);
                                let claim = rx.pickc(&[have as u16, 0xffff, have as u16 + 64, 0xfff0]);
                                let mut t = vec![1u8, 0];
                                t.extend_from_slice(&claim.to_le_bytes());
                                for i in 0..have {
                                    t.push(if i % 8 == 4 { 1 + rx.below(3) as u8 } else { rx.below(256) as u8 });
                                }
                                t
                            }
                            1 => real_world_records(&mut rx, &e.name.0, &e.comment.0, true),
                            _ => vec![],
                        };
                        tail.truncate(200);
                        let z = 4 + 8 * (e.z64_central & 7).count_ones() as usize;
                        let room = 65535usize.saturating_sub(if e.z64_central & 7 != 0 { z } else { 0 }).saturating_sub(tail.len()).saturating_sub(rx.below(30) as usize);
                        if room > 8 {
                            let n = room - 4;
                            let mut x = 0xbeefu16.to_le_bytes().to_vec();
                            x.extend_from_slice(&(n as u16).to_le_bytes());
                            x.extend_from_slice(&vec![0x5au8; n]);
                            x.extend_from_slice(&tail);
                            e.extra_central = Hex(x);
                        }
                    }
                    if !small && r.chance(1, 3) {
                        // long names that are not ASCII: the name accessors (mangled / enclosed / raw / decoded)
                        let k = r.usize_below(l.entries.len());
                        let (nm, utf8) = awkward_long_name(r);
                        l.entries[k].name = Hex(nm);
                        l.entries[k].utf8 = utf8;
                    }
                    // make the AES / ZipCrypto cases frequent: they own several of the weak points
                    if r.chance(1, 3) {
                        l.entries[0].enc = Some(Enc::Aes { pw: Hex(b"pw".to_vec()), strength: r.range(1, 3) as u8, version: r.range(1, 2) as u8, salt_seed: 5 });
                    }
                    SeedImg::Src(Source::Built(l))
                }
                9 if !small && r.chance(1, 3) => SeedImg::MarkerRun {
                    token: r.pickc(&[indep::SIG_LOCAL, indep::SIG_CENTRAL, indep::SIG_EOCD, indep::SIG_Z64_EOCD, indep::SIG_Z64_LOC, indep::SIG_DD, 0x30304b50, 0x08074b50, 0x30304b50]),
                    pad: r.pickc(&[0u8, 0, 0, 4, 12, 26]),
                    count: r.pickc(&[300u32, 3_000, 30_000, 300_000]),
                    seed: r.next_u64(),
                },
                9 => SeedImg::Fixture(r.pick(&["aes_archive.zip", "comment_garbage.zip", "files_and_dirs.zip", "invalid_cde_number_of_files_allocation_greater_offset.zip", "invalid_cde_number_of_files_allocation_smaller_offset.zip", "invalid_offset.zip", "invalid_offset2.zip", "mimetype.zip", "zip64_demo.zip"]).to_string()),
                10 => SeedImg::Random { len: r.size(3000), seed: r.next_u64() },
                _ => SeedImg::RandomEocd { len: r.size(2000), seed: r.next_u64(), entries: r.pickc(&[0u16, 1, 2, 0xffff, 1000]), cd_size: r.pickc(&[0u32, 46, 100, 0xffff_ffff, 5000]), cd_off: r.pickc(&[0u32, 1, 30, 0xffff_ffff, 2000]) },
            }
        };
        let plan_kind = rs.below(20);
        let mut seedimg = mk_seed(&mut r, plan_kind < 6);
        if plan_kind >= 2 && plan_kind < 6 {
            // the ZIP64 end record and locator are among the structures whose fields get enumerated
            if let SeedImg::Src(Source::Built(l)) = &mut seedimg {
                if rs.chance(1, 2) {
                    l.force_z64_end = true;
                    l.trailing = 0;
                }
            }
        }
        let img_len = seed_image(&seedimg).len() as u64;
        let plan = match plan_kind {
            0 | 1 => Plan::Prefixes { range: None },
            2 | 3 => Plan::StructBytes { range: None },
            4 => {
                if Rng::derive(s, "tail-edits").chance(1, 2) {
                    Plan::TailEdits { range: None }
                } else {
                    Plan::StructBytes { range: None }
                }
            }
            5 => Plan::FieldLies { range: None },
            _ => {
                let n = rs.weighted(&[(70, 1u64), (25, 3), (5, 12)]);
                let mut v = vec![];
                for _ in 0..r.range(1, n) {
                    let pos = r.below(img_len.max(1));
                    // bias towards the tail (end records, directory)
                    let pos = if r.chance(1, 2) { img_len.saturating_sub(r.below(120.min(img_len.max(1)))) .min(img_len.saturating_sub(1))} else { pos };
                    v.push(match r.below(11) {
                        0 => ImgFault::Truncate(pos),
                        1 => ImgFault::TornTail { keep: pos, garbage: r.below(100), seed: r.next_u64() },
                        2 | 3 => ImgFault::BitFlip { pos, bit: r.below(8) as u8 },
                        4 | 5 => ImgFault::SetByte { pos, val: r.pickc(&[0u8, 1, 0xff, 0x50, 0x4b, 99, 0x80]) },
                        6 => ImgFault::ZeroRange { a: pos, b: pos + r.below(64) },
                        7 => ImgFault::DupBlock { a: pos, len: r.below(200), at: r.below(img_len.max(1)) },
                        8 => ImgFault::SwapBlocks { a: r.below(img_len.max(1) / 2 + 1), b: img_len / 2 + r.below(img_len.max(2) / 2), len: r.below(32) },
                        9 => ImgFault::Splice { other: Box::new(mk_seed(&mut r, true)), x: pos, y: r.below(200) },
                        _ => ImgFault::SetField { pos, width: r.pickc(&[2u8, 4, 8]), value: r.pickc(&[0u64, 1, 0xffff, 0xffff_ffff, u64::MAX, 1 << 32, 1 << 63, img_len]) },
                    });
                }
                Plan::Faults(v)
            }
        };
        // a seed that is hostile by construction (near-limit extra field with a lying tail record) is also run as it is
        let by_construction = matches!(&seedimg, SeedImg::Src(Source::Built(l)) if l.entries.iter().any(|e| e.extra_central.0.len() > 60_000));
        let plan = if by_construction && Rng::derive(s, "as-built").chance(2, 3) { Plan::Faults(vec![]) } else { plan };
        let case = HostCase { seed: seedimg, plan, pw: Hex(if r.chance(1, 2) { b"pw".to_vec() } else { r.rbytes(0, 5) }), bufs: gen_bufs(&mut r) };
        serde_json::to_value(case).unwrap_or(Value::Null)
    }

    fn run(&self, case: &Value, ctx: &mut Ctx) -> Verdict {
        let c: HostCase = match serde_json::from_value(case.clone()) {
            Ok(c) => c,
            Err(e) => return Verdict::Harness(format!("bad case: {e}")),
        };
        let img0 = seed_image(&c.seed);
        let n0 = img0.len() as u64;
        let crc_mode = self.crc;
        let mut one = |img: &[u8], what: String, ctx: &mut Ctx| -> Result<(), Verdict> {
            let _ = CRC_BAD.with(|c| c.borrow_mut().take());
            ctx.sub_evals += 1;
            ctx.tick();
            match guard(|| {
                let mut tmp = Ctx::new(&ctx.property, ctx.tier, &ctx.open_findings);
                let r = drive(img, &c.pw.0, &c.bufs, &mut tmp);
                (r, tmp)
            }) {
                Ok((Ok((sig, past)), tmp)) => {
                    let bad = CRC_BAD.with(|c| c.borrow_mut().take());
                    if let (true, Some(b)) = (crc_mode, bad) {
                        return Err(viol("C04/completed-read-with-wrong-crc/hostile", format!("{b} || {what}")));
                    }
                    ctx.io_events += tmp.io_events;
                    for (k, v) in tmp.probes {
                        ctx.probe_n(&k, v);
                    }
                    if past {
                        ctx.sub_sigs.push(sig);
                    }
                    Ok(())
                }
                Ok((Err(Verdict::Violation { class, detail }), _)) => {
                    if crc_mode {
                        Ok(())
                    } else {
                        Err(viol(class, format!("{detail} || {what}")))
                    }
                }
                Ok((Err(v), _)) => Err(v),
                Err(Verdict::Violation { class, detail }) => {
                    if crc_mode {
                        Ok(()) // a panic is C05's business
                    } else {
                        Err(viol(format!("C05/{class}"), format!("{detail} || {what}")))
                    }
                }
                Err(v) => Err(v),
            }
        };
        match &c.plan {
            Plan::Faults(fs) => {
                let mut img = img0.clone();
                for f in fs {
                    apply_fault(&mut img, f);
                    ctx.fired.entry(format!("{f:?}").split(|ch: char| !ch.is_alphanumeric()).next().unwrap_or("fault").to_string()).and_modify(|x| *x += 1).or_insert(1);
                }
                if let Err(v) = one(&img, "fault list".into(), ctx) {
                    return v;
                }
            }
            Plan::Prefixes { range } => {
                let (lo, hi) = range.unwrap_or((0, n0 + 1));
                for k in lo..hi.min(n0 + 1) {
                    *ctx.fired.entry("Truncate".into()).or_insert(0) += 1;
                    if let Err(v) = one(&img0[..k as usize], format!("prefix of {k} bytes"), ctx) {
                        return v;
                    }
                }
            }
            Plan::TailEdits { range } => {
                let span = n0.min(160);
                let first = n0 - span;
                let per = 20 + 4 * 2; // deletions of 1..=20 bytes, insertions of 1/2/4/8 bytes of 0x00 and of 0xff
                let total = span * per;
                let (lo, hi) = range.unwrap_or((0, total));
                for idx in lo..hi.min(total) {
                    let at = (first + idx / per) as usize;
                    let k = idx % per;
                    let mut img = img0.clone();
                    let what = if k < 20 {
                        let len = (k as usize + 1).min(img.len() - at);
                        img.drain(at..at + len);
                        *ctx.fired.entry("DeleteRange".into()).or_insert(0) += 1;
                        format!("{len} bytes deleted at {at}")
                    } else {
                        let j = k - 20;
                        let len = [1usize, 2, 4, 8][(j / 2) as usize];
                        let val = if j % 2 == 0 { 0u8 } else { 0xff };
                        let ins = vec![val; len];
                        img.splice(at..at, ins);
                        *ctx.fired.entry("InsertBytes".into()).or_insert(0) += 1;
                        format!("{len} bytes of {val:#x} inserted at {at}")
                    };
                    if let Err(v) = one(&img, what, ctx) {
                        return v;
                    }
                }
            }
            Plan::StructBytes { range } => {
                let p = match indep::parse(&img0) {
                    Ok(p) => p,
                    Err(_) => return Verdict::Skip("seed image has no end record at EOF".into()),
                };
                let (_f, regions) = fields_of(&img0, &p);
                let mut offs: Vec<u64> = regions.iter().flat_map(|(a, b)| *a..(*b).min(n0).min(*a + 400)).collect();
                offs.sort();
                offs.dedup();
                // thorough: all 255 substitutions; quick: 24 representative ones (all single-bit flips,
                // +-1, and the bytes that spell signatures, method ids and extremes)
                let reps: Vec<u8> = if ctx.tier == Tier::Thorough { (1..=255u8).collect() } else { vec![] };
                let per = if ctx.tier == Tier::Thorough { 255u64 } else { 24 };
                let total = offs.len() as u64 * per;
                let (lo, hi) = range.unwrap_or((0, total));
                let mut img = img0.clone();
                for idx in lo..hi.min(total) {
                    let pos = offs[(idx / per) as usize] as usize;
                    let orig = img0[pos];
                    let j = (idx % per) as usize;
                    let val = if ctx.tier == Tier::Thorough {
                        reps[j].wrapping_add(orig)
                    } else {
                        match j {
                            0..=7 => orig ^ (1 << j),
                            8 => orig.wrapping_add(1),
                            9 => orig.wrapping_sub(1),
                            _ => [0u8, 0xff, 0x50, 0x4b, 1, 2, 5, 6, 7, 8, 99, 0x99, 12, 93][j - 10],
                        }
                    };
                    if val == orig {
                        continue;
                    }
                    img[pos] = val;
                    *ctx.fired.entry("SetByte".into()).or_insert(0) += 1;
                    let r = one(&img, format!("byte {pos} set to {val:#x} (was {orig:#x})"), ctx);
                    img[pos] = orig;
                    if let Err(v) = r {
                        return v;
                    }
                }
            }
            Plan::FieldLies { range } => {
                let p = match indep::parse(&img0) {
                    Ok(p) => p,
                    Err(_) => return Verdict::Skip("seed image has no end record at EOF".into()),
                };
                let (fields, _r) = fields_of(&img0, &p);
                // one lie = one or several fields set together (claims that vouch for each other)
                let mut all: Vec<Vec<(u64, u8, &'static str, u64)>> = vec![];
                for (pos, w, name) in fields.iter().copied() {
                    if pos + w as u64 > n0 {
                        continue;
                    }
                    let mut cur = [0u8; 8];
                    cur[..w as usize].copy_from_slice(&img0[pos as usize..pos as usize + w as usize]);
                    let cur = u64::from_le_bytes(cur);
                    for v in boundary_values(w, n0, cur) {
                        all.push(vec![(pos, w, name, v)]);
                    }
                }
                // coordinated lies: a huge entry count together with a directory size that "covers" it, both
                // sizes of one header, all three variable lengths of a central header, offset + size
                let find = |name: &str| -> Vec<(u64, u8, &'static str)> { fields.iter().copied().filter(|(pos, w, n)| *n == name && pos + *w as u64 <= n0).collect() };
                let first = |name: &str| find(name).into_iter().next();
                if let (Some(nd), Some(n), Some(sz)) = (first("z.ndisk"), first("z.n"), first("z.cdsize")) {
                    for cnt in [0x1_0000u64, 200_000, 3_000_000, 1 << 32, 1 << 56, u64::MAX / 46, u64::MAX] {
                        for size in [cnt.saturating_mul(46), cnt.wrapping_mul(46), u64::MAX, cnt] {
                            all.push(vec![(nd.0, nd.1, nd.2, cnt), (n.0, n.1, n.2, cnt), (sz.0, sz.1, sz.2, size)]);
                        }
                    }
                    if let Some(off) = first("z.cdoff") {
                        for (o, z) in [(u64::MAX, u64::MAX), (1 << 63, 1 << 63), (u64::MAX - n0, n0), (n0, u64::MAX - n0)] {
                            all.push(vec![(off.0, off.1, off.2, o), (sz.0, sz.1, sz.2, z)]);
                        }
                        // a huge entry count together with a directory OFFSET that "leaves room" for that many entries
                        // (with and without a matching size): guards that compare a claimed count with another claim
                        for cnt in [0x1_0000u64, 1 << 20, 3_000_000, 1 << 32, 1 << 56] {
                            for o in [cnt.saturating_mul(30), cnt.saturating_mul(46), 1 << 62, u64::MAX - n0] {
                                all.push(vec![(nd.0, nd.1, nd.2, cnt), (n.0, n.1, n.2, cnt), (off.0, off.1, off.2, o)]);
                                all.push(vec![(nd.0, nd.1, nd.2, cnt), (n.0, n.1, n.2, cnt), (off.0, off.1, off.2, o), (sz.0, sz.1, sz.2, cnt.saturating_mul(46))]);
                            }
                        }
                    }
                }
                if let (Some(nd), Some(n), Some(sz)) = (first("e.ndisk"), first("e.n"), first("e.cdsize")) {
                    for cnt in [1u64, 100, 1000, 0xfffe, 0xffff] {
                        for size in [cnt * 46, 0, 0xffff_ffff, n0] {
                            all.push(vec![(nd.0, nd.1, nd.2, cnt), (n.0, n.1, n.2, cnt), (sz.0, sz.1, sz.2, size)]);
                        }
                    }
                }
                for (a, b) in [("c.csize", "c.usize"), ("l.csize", "l.usize")] {
                    for (x, y) in find(a).into_iter().zip(find(b).into_iter()) {
                        for v in [0xffff_ffffu64, 0xffff_fffe, 0x7fff_ffff, n0, 0] {
                            all.push(vec![(x.0, x.1, x.2, v), (y.0, y.1, y.2, v)]);
                        }
                    }
                }
                for ((x, y), z) in find("c.nlen").into_iter().zip(find("c.elen").into_iter()).zip(find("c.clen").into_iter()) {
                    for v in [0xffffu64, 0x8000, 0] {
                        all.push(vec![(x.0, x.1, x.2, v), (y.0, y.1, y.2, v), (z.0, z.1, z.2, v)]);
                    }
                }
                let (lo, hi) = range.unwrap_or((0, all.len() as u64));
                let mut img = img0.clone();
                for idx in lo..hi.min(all.len() as u64) {
                    let lie = &all[idx as usize];
                    let saves: Vec<Vec<u8>> = lie.iter().map(|(pos, w, _, _)| img[*pos as usize..*pos as usize + *w as usize].to_vec()).collect();
                    let mut what = String::new();
                    for (pos, w, name, v) in lie {
                        apply_fault(&mut img, &ImgFault::SetField { pos: *pos, width: *w, value: *v });
                        what.push_str(&format!("field {name} at {pos} set to {v:#x}; "));
                    }
                    *ctx.fired.entry(if lie.len() > 1 { "SetFieldsTogether" } else { "SetField" }.into()).or_insert(0) += 1;
                    let r = one(&img, what, ctx);
                    for ((pos, w, _, _), save) in lie.iter().zip(saves.iter()).rev() {
                        img[*pos as usize..*pos as usize + *w as usize].copy_from_slice(save);
                    }
                    if let Err(v) = r {
                        return v;
                    }
                }
            }
        }
        Verdict::Pass
    }

    fn shrink(&self, case: &Value) -> Vec<Value> {
        let c: HostCase = match serde_json::from_value(case.clone()) {
            Ok(c) => c,
            Err(_) => return vec![],
        };
        let mut out: Vec<HostCase> = vec![];
        let bis = |range: &Option<(u64, u64)>| -> Vec<Option<(u64, u64)>> {
            let (lo, hi) = range.unwrap_or((0, 1 << 24));
            if hi - lo > 1 {
                let mid = lo + (hi - lo) / 2;
                vec![Some((lo, mid)), Some((mid, hi))]
            } else {
                vec![]
            }
        };
        match &c.plan {
            Plan::Faults(fs) => {
                for i in (0..fs.len()).rev() {
                    let mut v = fs.clone();
                    v.remove(i);
                    out.push(HostCase { plan: Plan::Faults(v), ..c.clone() });
                }
            }
            Plan::Prefixes { range } => {
                for r in bis(range) {
                    out.push(HostCase { plan: Plan::Prefixes { range: r }, ..c.clone() });
                }
            }
            Plan::StructBytes { range } => {
                for r in bis(range) {
                    out.push(HostCase { plan: Plan::StructBytes { range: r }, ..c.clone() });
                }
            }
            Plan::FieldLies { range } => {
                for r in bis(range) {
                    out.push(HostCase { plan: Plan::FieldLies { range: r }, ..c.clone() });
                }
            }
            Plan::TailEdits { range } => {
                for r in bis(range) {
                    out.push(HostCase { plan: Plan::TailEdits { range: r }, ..c.clone() });
                }
            }
        }
        if !c.bufs.is_empty() {
            out.push(HostCase { bufs: vec![], ..c.clone() });
        }
        if matches!(c.plan, Plan::Faults(_)) {
            if let SeedImg::Src(Source::Built(l)) = &c.seed {
                for l2 in shrink_layout(l) {
                    out.push(HostCase { seed: SeedImg::Src(Source::Built(l2)), ..c.clone() });
                }
            }
        }
        out.into_iter().filter_map(|c| serde_json::to_value(c).ok()).collect()
    }
}
