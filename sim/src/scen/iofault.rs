//! C11: I/O failures surface as errors, never as panics or wrong results. For a seeded program: a
//! failure-free run, then one run per I/O call index k (and fault kind) with a fault at k. The
//! program is not stopped at the first error: later calls, finish and Drop are still executed.

use super::chunk::{open_outcome, read_outcome, stream_outcome, visit_outcome, EntryOut};
use super::common::*;
use super::prog::exec_full;
use crate::indep::build::{build, Enc};
use crate::model::{run_model, Model, ModelCfg};
use crate::ops::*;
use crate::rng::{fnv, mix, Rng};
use crate::runner::*;
use crate::simio::*;
use serde::{Deserialize, Serialize};
use serde_json::Value;

#[derive(Serialize, Deserialize, Clone, Debug, PartialEq)]
pub enum Kind {
    /// writer program (may include append rounds and raw copies)
    Writer,
    /// open + enumerate + read everything through the seekable reader
    Reader,
    /// front-to-back through the streaming reader
    Stream,
    /// front-to-back through ZipStreamReader::visit (files, then the central directory's metadata)
    Visit,
    /// ZipArchive::new alone (entry count, comment, names) on an archive with more than 65535 entries: the ZIP64
    /// end record and its locator are then the only place that holds the real count
    OpenMany,
}

#[derive(Serialize, Deserialize, Clone, Debug, PartialEq)]
pub struct FaultCase {
    pub kind: Kind,
    pub src: Source,
    pub sources: Vec<Source>,
    pub base: Option<Source>,
    /// fault kinds enabled for this case
    pub faults: Vec<Decision>,
    pub bufs: Vec<u32>,
    /// restrict the fault index to [lo, hi) (minimisation form)
    #[serde(default)]
    pub k_range: Option<(u64, u64)>,
    /// fault on the raw-copy source handle instead of the sink
    #[serde(default)]
    pub on_src: bool,
    /// thorough: a second fault later in the same run
    #[serde(default)]
    pub pair: bool,
}

pub struct IoFault;

fn strip(v: &[EntryOut]) -> Vec<(String, u64, u32, Option<String>)> {
    // semantics, not bytes (R7): drop offsets (data_start|header_start|extra len are the last 3 fields)
    v.iter()
        .map(|e| {
            let parts: Vec<&str> = e.meta.split('|').collect();
            let keep = parts.len().saturating_sub(3).max(1);
            (parts[..keep.min(parts.len())].join("|"), e.len, e.crc, e.err.clone())
        })
        .collect()
}

fn applicable(d: Decision, op: OpKind) -> bool {
    match (d, op) {
        (Decision::Fail(_), _) | (Decision::Sticky(_), _) => true,
        (Decision::Eintr, OpKind::Seek) => false,
        (Decision::Eintr, _) => true,
        (Decision::ZeroWrite, OpKind::Write) => true,
        (Decision::EofEarly, OpKind::Read) => true,
        (Decision::Short(_), OpKind::Read) | (Decision::Short(_), OpKind::Write) => true,
        _ => false,
    }
}

fn pick_ks(n: u64, range: Option<(u64, u64)>, r: &mut Rng) -> Vec<u64> {
    let (lo, hi) = range.unwrap_or((0, n));
    let hi = hi.min(n);
    if hi <= lo {
        return vec![];
    }
    let span = hi - lo;
    if span <= 400 {
        (lo..hi).collect()
    } else {
        let mut v: Vec<u64> = (lo..lo + 100).collect();
        v.extend(hi - 100..hi);
        for _ in 0..150 {
            v.push(lo + r.below(span));
        }
        v.sort();
        v.dedup();
        v
    }
}

/// The archive a writer finished successfully AFTER one of its calls had reported an I/O error: structure
/// (end records, directory, local/central agreement, extents; payload decoding is not judged - the failed
/// call may have been a data write) and no entry whose creating call returned an error.
fn after_error_archive(st: &Shared, ops: &[Op], out: &ExecOut, sched: &str, decode: bool) -> Option<Verdict> {
    let img = image_of(st);
    let p = match crate::indep::parse(&img) {
        Ok(p) => p,
        Err(e) => return Some(viol("C02/invalid-after-io-error", format!("finish() reported success after an earlier I/O error, but the bytes do not parse: {e} || {sched}"))),
    };
    if crate::indep::ambiguous(img.as_slice(), &p).is_some() {
        return None;
    }
    // `decode`: no DATA call (write / flush) failed - the error came from an entry-creating call or from finish().
    // Then every listed entry received all its bytes through calls that reported success, and "stored CRC/sizes
    // match the decoded data" (C02) is due as well. Passwords by entry name; a name created more than once is
    // not decoded (which password belongs to which is not decidable from the names alone).
    let mut by_name: std::collections::BTreeMap<Vec<u8>, Vec<Option<Vec<u8>>>> = Default::default();
    for op in ops {
        let (name, o) = match op {
            Op::StartFile { name, o } | Op::StartAligned { name, o, .. } | Op::StartExtra { name, o } | Op::AddSymlink { name, o, .. } => (name.clone(), o),
            Op::AddDir { name, o } => (if name.ends_with('/') || name.ends_with('\\') { name.clone() } else { format!("{name}/") }, o),
            _ => continue,
        };
        by_name.entry(name.into_bytes()).or_default().push(o.password.as_ref().map(|h| h.0.clone()));
    }
    let unique = |i: usize| -> Option<&Option<Vec<u8>>> {
        let c = p.centrals.get(i)?;
        let v = by_name.get(&c.name)?;
        if v.len() == 1 && p.centrals.iter().filter(|x| x.name == c.name).count() == 1 {
            v.first()
        } else {
            None
        }
    };
    let pws = |i: usize| unique(i).cloned().flatten();
    let skip = |i: usize| !decode || unique(i).is_none();
    let no = |_: usize| false;
    let vo = crate::indep::ValidateOpts { passwords: &pws, allow_gaps: true, decode_limit: if decode { 1 << 26 } else { 0 }, skip_decode: &skip, relax_entry: &no };
    let bad = crate::indep::validate(img.as_slice(), &p, &vo);
    if !bad.is_empty() {
        return Some(viol("C02/invalid-after-io-error", format!("finish() reported success after an earlier I/O error, but the archive is not self-consistent: {} || {sched}", bad.iter().take(3).cloned().collect::<Vec<_>>().join("; "))));
    }
    // names created successfully / unsuccessfully
    let mut ok_names: Vec<String> = vec![];
    let mut failed_names: Vec<String> = vec![];
    for (op, stp) in ops.iter().zip(out.steps.iter()) {
        let name = match op {
            Op::StartFile { name, .. } | Op::StartAligned { name, .. } | Op::StartExtra { name, .. } | Op::AddSymlink { name, .. } => name.clone(),
            Op::AddDir { name, .. } => {
                if name.ends_with('/') || name.ends_with('\\') {
                    name.clone()
                } else {
                    format!("{name}/")
                }
            }
            Op::RawCopy { .. } => return None, // names come from another archive: not judged here
            _ => continue,
        };
        if stp.res.is_ok() {
            ok_names.push(name);
        } else {
            failed_names.push(name);
        }
    }
    for c in &p.centrals {
        let n = String::from_utf8_lossy(&c.name).into_owned();
        if failed_names.contains(&n) && !ok_names.contains(&n) {
            return Some(viol("C12/failed-entry-listed", format!("finish() reported success, and the archive lists {n:?} although the call that created it returned an error || {sched}")));
        }
    }
    None
}

impl Scenario for IoFault {
    fn name(&self) -> &'static str {
        "iofault"
    }
    fn total(&self, tier: Tier) -> u64 {
        match tier {
            Tier::Quick => 6_000,
            Tier::Thorough => 60_000,
        }
    }
    fn rule(&self) -> &'static str {
        "one case = one program (writer sequence incl. append/raw copy/extra data/encryption, or open+read-all on a writer-made or independently built archive incl. ZIP64/ZipCrypto/AES/junk prefix, or the streaming reader); one evaluation = the program re-run with ONE fault (hard error / sticky error / EINTR / zero-length write / early EOF) at I/O call index k, for every k (all k when the failure-free run has <= 400 calls, else first and last 100 plus a seeded sample) and every enabled kind; remaining operations, finish and Drop still run. Non-trivial = the fault actually fired; distinct = (case hash, k, kind)"
    }
    fn exhaustive_note(&self) -> Option<&'static str> {
        Some("per case: fault index k enumerated over every I/O call of the failure-free run (complete when <= 400 calls)")
    }
    fn gen(&self, seed: u64, idx: u64, tier: Tier) -> Value {
        let s = mix(mix(seed, fnv(b"iofault")), idx);
        let mut r = Rng::derive(s, "workload");
        let mut rs = Rng::derive(s, "swarm");
        let kind = rs.weighted(&[(10, 0u8), (8, 1), (3, 2), (3, 3)]);
        let mut sources = vec![];
        let mut base = None;
        let max_content = *rs.pick(&[16u64, 300, 4096, 40_000]);
        let many = Rng::derive(s, "open-many").chance(1, 300);
        let (kind, src) = match kind {
            _ if many => {
                let mut rm = Rng::derive(s, "open-many2");
                let mut ops = vec![Op::Many { n: rm.pickc(&[65536u32, 65540, 70000]), prefix: "e".into() }];
                if rm.chance(1, 2) {
                    ops.push(Op::SetComment { c: crate::content::Hex(b"many".to_vec()) });
                }
                (Kind::OpenMany, Source::Prog(ops))
            }
            0 => {
                if rs.chance(1, 2) {
                    let mut s = gen_source(&mut r);
                    if let Source::Built(l) = &mut s {
                        l.trailing = 0;
                        for e in l.entries.iter_mut() {
                            e.enc = None;
                        }
                    }
                    sources.push(s);
                }
                let src_lens: Vec<usize> = sources.iter().map(|s| source_entries(&s.image()).len()).collect();
                let cfg = GenCfg { max_entries: 3, max_content, methods: METHODS.to_vec(), extra: true, aligned: true, enc: true, n_sources: sources.len(), src_lens, append: true, long_names: false, comment_max: 30, misc_ops: true };
                let mut ops = gen_program(&mut r, &cfg);
                tame_levels(&mut ops);
                if Rng::derive(s, "flush").chance(1, 4) {
                    // flush() in the middle of an entry: the compressor is asked to emit what it holds, and the
                    // failure then lands inside that (a failed Bzip2 flush used to hang the next call: D25)
                    let mut rf = Rng::derive(s, "flush2");
                    let ws: Vec<usize> = ops.iter().enumerate().filter(|(_, o)| matches!(o, Op::Write { .. })).map(|(i, _)| i).collect();
                    if !ws.is_empty() {
                        let at = *rf.pick(&ws);
                        if rf.chance(1, 2) {
                            // more output than the encoders' internal buffers hold (32 KiB): the flush is then
                            // still in progress inside the compressor when the sink fails
                            ops[at] = Op::Write { c: crate::content::Content::Rand { len: rf.range(33_000, 70_000), seed: rf.next_u64() }, split: vec![] };
                        }
                        ops.insert(at + 1, Op::Flush);
                        if rf.chance(1, 2) {
                            ops.insert(at + 2, Op::Write { c: crate::content::Content::Lit(crate::content::Hex(b"more".to_vec())), split: vec![] });
                        }
                    }
                }
                {
                    // one single write of incompressible data larger than the encoders' internal buffers: the compressor
                    // then touches the sink (and meets the fault) in the middle of a write() call, after part of the
                    // caller's buffer has already gone in
                    let mut rb = Rng::derive(s, "big-write");
                    if rb.chance(1, 6) {
                        let ws: Vec<usize> = ops.iter().enumerate().filter(|(_, o)| matches!(o, Op::Write { .. })).map(|(i, _)| i).collect();
                        if !ws.is_empty() {
                            let at = *rb.pick(&ws);
                            ops[at] = Op::Write { c: crate::content::Content::Rand { len: rb.range(66_000, 300_000), seed: rb.next_u64() }, split: vec![] };
                        }
                    }
                }
                if rs.chance(1, 5) {
                    let mut l = gen_layout(&mut r, 3, 300, false);
                    l.trailing = 0;
                    base = Some(Source::Built(l));
                    ops.insert(0, Op::Append);
                }
                (Kind::Writer, Source::Prog(ops))
            }
            k => {
                let src = if rs.chance(1, 2) {
                    let cfg = GenCfg { max_entries: 3, max_content, methods: METHODS.to_vec(), extra: true, aligned: false, enc: k == 1, n_sources: 0, src_lens: vec![], append: false, long_names: false, comment_max: 30, misc_ops: false };
                    let mut ops = gen_program(&mut r, &cfg);
                    tame_levels(&mut ops);
                    Source::Prog(ops)
                } else {
                    let mut l = gen_layout(&mut r, 3, max_content, k == 1);
                    l.trailing = 0;
                    for e in l.entries.iter_mut() {
                        if !matches!(e.method, 0 | 8 | 12 | 93) {
                            e.method = 8;
                        }
                        if k >= 2 {
                            e.dd = 0;
                        }
                    }
                    Source::Built(l)
                };
                (match k { 1 => Kind::Reader, 2 => Kind::Stream, _ => Kind::Visit }, src)
            }
        };
        let all = [Decision::Fail(EK::Other), Decision::Sticky(EK::StorageFull), Decision::Eintr, Decision::ZeroWrite, Decision::EofEarly, Decision::Fail(EK::UnexpectedEof)];
        let mut faults: Vec<Decision> = vec![Decision::Fail(EK::Other)];
        let extra = if tier == Tier::Thorough { 3 } else { 2 };
        for _ in 0..extra {
            let d = rs.pickc(&all);
            if !faults.contains(&d) {
                faults.push(d);
            }
        }
        let case = FaultCase { k_range: if kind == Kind::OpenMany { Some((0, 64)) } else { None }, kind, src, sources, base, faults, bufs: gen_bufs(&mut r), on_src: rs.chance(1, 3), pair: tier == Tier::Thorough && rs.chance(1, 4) };
        serde_json::to_value(case).unwrap_or(Value::Null)
    }

    fn run(&self, case: &Value, ctx: &mut Ctx) -> Verdict {
        let c: FaultCase = match serde_json::from_value(case.clone()) {
            Ok(c) => c,
            Err(e) => return Verdict::Harness(format!("bad case: {e}")),
        };
        let case_hash = fnv(case.to_string().as_bytes());
        let mut r = Rng::new(case_hash);
        let (src_stores, src_infos, _) = sources_to_stores(&c.sources);
        match c.kind {
            Kind::Writer => {
                let mut ops = match &c.src {
                    Source::Prog(o) => o.clone(),
                    _ => return Verdict::Harness("writer case without program".into()),
                };
                // C11 speaks of calls that return a Result. Ending a writer lifetime by Drop swallows the error of
                // the implicit finalisation (it goes to stderr), so under fault injection every lifetime ends with
                // an explicit finish() before the "restart" (false alarm of the thorough tier: a swallowed error in
                // Drop, then new_append found the end record of a stored nested archive and carried on with it)
                let mut i = 0;
                while i < ops.len() {
                    if matches!(ops[i], Op::Append) && i > 0 && !matches!(ops[i - 1], Op::Finish) {
                        ops.insert(i, Op::Finish);
                        i += 1;
                    }
                    i += 1;
                }
                let base_img = c.base.as_ref().map(|b| b.image());
                let mk_store = || match &base_img {
                    Some(b) => shared_from(b),
                    None => shared_empty(),
                };
                // failure-free run
                let st0 = mk_store();
                let (out0, io0, sio0) = exec_full(st0.clone(), base_img.is_some(), &ops, &src_stores, &Policy::Pure, &Policy::Pure, 0, true);
                set_record(&io0, false);
                let any_err0 = out0.steps.iter().any(|s| !s.res.is_ok()) || out0.final_res.as_ref().map(|r| !r.is_ok()).unwrap_or(false);
                let mut m = Model::new(ModelCfg { enforce_unrepresentable: false, bzip2_level0_err: true });
                if base_img.is_some() {
                    m.chaos = false;
                }
                let lookup = |si: usize, idx: usize, how: u8| resolve_src(&src_infos, si, idx, how);
                let model_ok = base_img.is_none() && run_model(&mut m, &ops, &out0.steps, &out0.final_res, &lookup).is_ok() && m.complete && !m.lenient && !m.chaos;
                let passwords: Vec<Option<Vec<u8>>> = if model_ok { m.entries.iter().map(|e| e.password.clone()).collect() } else { vec![] };
                let pw = |i: usize| passwords.get(i).cloned().flatten();
                let mut tmp = None;
                let o0 = read_outcome(&st0, &Policy::Pure, &[], &pw, &mut tmp);
                let stale0 = out0.lives.iter().any(|(app, end, len)| *app && end < len);
                // per-call op kinds of the failure-free run (to enumerate only applicable faults)
                let (kinds_sink, n_sink) = call_kinds(|pol| {
                    let st = mk_store();
                    let (_o, io, _s) = exec_full_rec(st, base_img.is_some(), &ops, &src_stores, pol, &Policy::Pure);
                    io
                });
                let n_src = stats(&sio0).calls;
                let on_src = c.on_src && n_src > 0;
                let (kinds, n) = if on_src {
                    call_kinds(|pol| {
                        let st = mk_store();
                        let (_o, _io, sio) = exec_full_rec2(st, base_img.is_some(), &ops, &src_stores, &Policy::Pure, pol);
                        sio
                    })
                } else {
                    (kinds_sink, n_sink)
                };
                ctx.probe_n("calls_in_failure_free_runs", n);
                for k in pick_ks(n, c.k_range, &mut r) {
                    let opk = kinds.get(k as usize).copied().unwrap_or(OpKind::Write);
                    for d in &c.faults {
                        if !applicable(*d, opk) {
                            continue;
                        }
                        ctx.sub_evals += 1;
                        ctx.tick();
                        let mut pol = Policy::At { k, d: *d };
                        if c.pair {
                            let k2 = k + 1 + r.below(20);
                            pol = Policy::Explicit(vec![(k, *d), (k2, Decision::Fail(EK::Other))]);
                        }
                        let st = mk_store();
                        let res = guard(|| if on_src { exec_full(st.clone(), base_img.is_some(), &ops, &src_stores, &Policy::Pure, &pol, 0, true) } else { exec_full(st.clone(), base_img.is_some(), &ops, &src_stores, &pol, &Policy::Pure, 0, true) });
                        let sched = format!("fault {d:?} at {} call {k} ({opk:?})", if on_src { "source" } else { "sink" });
                        let (out, io, sio) = match res {
                            Ok(x) => x,
                            Err(Verdict::Violation { class, detail }) => return viol(format!("C11/{class}"), format!("{detail} || {sched}")),
                            Err(v) => return v,
                        };
                        let fio = if on_src { &sio } else { &io };
                        let fired = stats(fio).fired.values().sum::<u64>() > 0;
                        ctx.absorb(fio);
                        if fired {
                            ctx.sub_sigs.push(mix(case_hash, mix(k, fnv(format!("{d:?}{on_src}").as_bytes()))));
                            ctx.probe(&format!("fired_on_{opk:?}"));
                        }
                        let any_err = out.steps.iter().any(|s| !s.res.is_ok()) || out.final_res.as_ref().map(|r| !r.is_ok()).unwrap_or(false);
                        if any_err && !any_err0 {
                            ctx.probe("error_reported");
                            // C02 / C12 under faults: an error was reported, the caller carried on, and finish()
                            // reported success. Then the bytes are an archive the writer vouches for: it must be
                            // structurally sound, and an entry whose creating call FAILED must not be listed.
                            let finish_ok = out.final_res.as_ref().map(|r| r.is_ok()).unwrap_or(false);
                            let single = !c.pair && !matches!(d, Decision::Sticky(_));
                            let stale = stale0 || out.lives.iter().any(|(app, end, len)| *app && end < len);
                            if finish_ok && single && !on_src && base_img.is_none() && !stale && model_ok {
                                ctx.probe("finish_succeeded_after_a_reported_error");
                                let data_call_failed = ops.iter().zip(out.steps.iter()).any(|(op, stp)| !stp.res.is_ok() && matches!(op, Op::Write { .. } | Op::Flush));
                                if !data_call_failed {
                                    ctx.probe("finish_succeeded_after_a_reported_error:payload_judged");
                                }
                                if let Some(v) = after_error_archive(&st, &ops, &out, &sched, !data_call_failed) {
                                    return v;
                                }
                            }
                            continue;
                        }
                        if any_err0 {
                            // the failure-free run itself reports errors (illegal program): only no-panic is asserted
                            continue;
                        }
                        // nothing reported an error: the outcome must equal the failure-free run (R7)
                        ctx.probe("no_error_reported_outcome_compared");
                        if stale0 || out.lives.iter().any(|(app, end, len)| *app && end < len) {
                            continue; // D12 territory (C13)
                        }
                        let mut tmp = None;
                        let o = read_outcome(&st, &Policy::Pure, &[], &pw, &mut tmp);
                        match (&o0, &o) {
                            (Ok(a), Ok(b)) => {
                                if strip(a) != strip(b) {
                                    return viol("C11/silent-wrong-result", format!("every call reported success, but the archive differs from the failure-free run: {} vs {} entries || {sched}", a.len(), b.len()));
                                }
                            }
                            (Ok(_), Err(e)) => return viol("C11/silent-wrong-result", format!("every call reported success, but the archive does not open: {e} || {sched}")),
                            _ => {}
                        }
                    }
                }
                Verdict::Pass
            }
            Kind::Reader | Kind::Stream | Kind::Visit | Kind::OpenMany => {
                let (store0, passwords): (Shared, Vec<Option<Vec<u8>>>) = match &c.src {
                    Source::Prog(ops) => {
                        let store = shared_empty();
                        let (out, _io, _s) = exec_full(store.clone(), false, ops, &[], &Policy::Pure, &Policy::Pure, 0, true);
                        let mut m = Model::new(ModelCfg { enforce_unrepresentable: false, bzip2_level0_err: true });
                        let lookup = |_: usize, _: usize, _: u8| None;
                        if run_model(&mut m, ops, &out.steps, &out.final_res, &lookup).is_err() || !m.complete || m.lenient {
                            return Verdict::Skip("program did not produce a complete archive".into());
                        }
                        (store, m.entries.iter().map(|e| e.password.clone()).collect())
                    }
                    Source::Built(l) => {
                        let b = build(l);
                        let pws = b
                            .order
                            .iter()
                            .map(|ei| match &l.entries[*ei].enc {
                                Some(Enc::ZipCrypto { pw, .. }) | Some(Enc::Aes { pw, .. }) => Some(pw.0.clone()),
                                None => None,
                            })
                            .collect();
                        (shared_from(&b.image), pws)
                    }
                };
                let pw = |i: usize| passwords.get(i).cloned().flatten();
                let stream = c.kind == Kind::Stream;
                let visit = c.kind == Kind::Visit;
                let open_many = c.kind == Kind::OpenMany;
                let run_one = |pol: &Policy, io: &mut Option<IoH>| -> Result<Vec<EntryOut>, String> {
                    if open_many {
                        open_outcome(&store0, pol, io)
                    } else if visit {
                        Ok(visit_outcome(&store0, pol, &c.bufs, io))
                    } else if stream {
                        Ok(stream_outcome(&store0, pol, &c.bufs, io))
                    } else {
                        read_outcome(&store0, pol, &c.bufs, &pw, io)
                    }
                };
                let mut io0 = None;
                let o0 = match run_one(&Policy::Pure, &mut io0) {
                    Ok(o) => o,
                    Err(e) => return Verdict::Skip(format!("failure-free run does not open: {e}")),
                };
                let (kinds, n) = call_kinds(|pol| {
                    let disk = SimDisk::new(store0.clone(), pol.clone());
                    let io = disk.io.clone();
                    set_record(&io, true);
                    if open_many {
                        let _ = zip::ZipArchive::new(disk);
                    } else if visit {
                        struct Nop<'a>(&'a [u32]);
                        impl zip::unstable::stream::ZipStreamVisitor for Nop<'_> {
                            fn visit_file(&mut self, f: &mut zip::read::ZipFile<'_>) -> zip::result::ZipResult<()> {
                                let _ = read_all(f, self.0, 1 << 30);
                                Ok(())
                            }
                            fn visit_additional_metadata(&mut self, _m: &zip::unstable::stream::ZipStreamFileMetadata) -> zip::result::ZipResult<()> {
                                Ok(())
                            }
                        }
                        let _ = zip::unstable::stream::ZipStreamReader::new(SimStream { inner: disk }).visit(&mut Nop(&c.bufs));
                    } else if stream {
                        let mut st = SimStream { inner: disk };
                        let mut out = vec![];
                        loop {
                            match zip::read::read_zipfile_from_stream(&mut st) {
                                Ok(Some(mut f)) => {
                                    let _ = read_all(&mut f, &c.bufs, 1 << 30);
                                    out.push(0);
                                }
                                _ => break,
                            }
                        }
                    } else if let Ok(mut ar) = zip::ZipArchive::new(disk) {
                        for i in 0..ar.len() {
                            let opened = match pw(i) {
                                Some(p) => ar.by_index_decrypt(i, &p).ok().and_then(|r| r.ok()),
                                None => ar.by_index(i).ok(),
                            };
                            if let Some(mut f) = opened {
                                let _ = read_all(&mut f, &c.bufs, 1 << 30);
                                // post-EOF reads, as in read_outcome
                                let mut b = [0u8; 7];
                                for _ in 0..10 {
                                    let _ = std::io::Read::read(&mut f, &mut b);
                                }
                            }
                        }
                    }
                    io
                });
                ctx.probe_n("calls_in_failure_free_runs", n);
                for k in pick_ks(n, c.k_range, &mut r) {
                    let opk = kinds.get(k as usize).copied().unwrap_or(OpKind::Read);
                    for d in &c.faults {
                        if !applicable(*d, opk) {
                            continue;
                        }
                        ctx.sub_evals += 1;
                        ctx.tick();
                        let pol = Policy::At { k, d: *d };
                        let mut io = None;
                        let sched = format!("fault {d:?} at source call {k} ({opk:?})");
                        let res = guard(|| run_one(&pol, &mut io));
                        if let Some(io) = &io {
                            let fired = stats(io).fired.values().sum::<u64>() > 0;
                            ctx.absorb(io);
                            if fired {
                                ctx.sub_sigs.push(mix(case_hash, mix(k, fnv(format!("{d:?}").as_bytes()))));
                                ctx.probe(&format!("fired_on_{opk:?}"));
                            }
                        }
                        let o = match res {
                            Ok(Ok(o)) => o,
                            Ok(Err(_)) => {
                                ctx.probe("error_reported");
                                continue;
                            }
                            Err(Verdict::Violation { class, detail }) => return viol(format!("C11/{class}"), format!("{detail} || {sched}")),
                            Err(v) => return v,
                        };
                        // per entry: an error, or exactly the failure-free result
                        if o.iter().any(|e| e.meta == "stream-error") {
                            ctx.probe("error_reported");
                            // entries before the error must still be right
                        }
                        for (i, e) in o.iter().enumerate() {
                            if e.err.is_some() {
                                ctx.probe("error_reported");
                                continue;
                            }
                            match o0.get(i) {
                                Some(x) if x == e => {}
                                Some(x) => {
                                    if x.err.is_some() {
                                        continue;
                                    }
                                    return viol("C11/silent-wrong-result", format!("entry {i}: no error reported but result differs from the failure-free run: len {} crc {:#x} meta {} vs len {} crc {:#x} meta {} || {sched}", e.len, e.crc, e.meta, x.len, x.crc, x.meta));
                                }
                                None => return viol("C11/silent-wrong-result", format!("entry {i} does not exist in the failure-free run || {sched}")),
                            }
                        }
                        if o.len() < o0.len() && !o.iter().any(|e| e.err.is_some()) {
                            return viol("C11/silent-wrong-result", format!("{} entries instead of {} and no error reported || {sched}", o.len(), o0.len()));
                        }
                    }
                }
                Verdict::Pass
            }
        }
    }

    fn shrink(&self, case: &Value) -> Vec<Value> {
        let c: FaultCase = match serde_json::from_value(case.clone()) {
            Ok(c) => c,
            Err(_) => return vec![],
        };
        let mut out: Vec<FaultCase> = vec![];
        // pin the fault kind, then bisect the fault index
        if c.faults.len() > 1 {
            for d in &c.faults {
                out.push(FaultCase { faults: vec![*d], ..c.clone() });
            }
        }
        if !c.on_src {
            // keep the handle choice stable during minimisation
        }
        let (lo, hi) = c.k_range.unwrap_or((0, 1 << 20));
        if hi - lo > 1 {
            let mid = lo + (hi - lo) / 2;
            out.push(FaultCase { k_range: Some((lo, mid)), ..c.clone() });
            out.push(FaultCase { k_range: Some((mid, hi)), ..c.clone() });
        }
        if c.pair {
            out.push(FaultCase { pair: false, ..c.clone() });
        }
        if c.k_range.map(|(a, b)| b - a <= 4).unwrap_or(false) {
            // program simplification changes call indices: allow the range to be re-opened
            match &c.src {
                Source::Prog(ops) => {
                    for o in shrink_ops(ops) {
                        if c.base.is_some() && !matches!(o.first(), Some(Op::Append)) {
                            continue;
                        }
                        out.push(FaultCase { src: Source::Prog(o), k_range: None, ..c.clone() });
                    }
                }
                Source::Built(l) => {
                    for l2 in shrink_layout(l) {
                        out.push(FaultCase { src: Source::Built(l2), k_range: None, ..c.clone() });
                    }
                }
            }
        }
        out.into_iter().filter_map(|c| serde_json::to_value(c).ok()).collect()
    }
}

/// run `f` with a recording Pure policy and return the op kind of every call
fn call_kinds(f: impl FnOnce(&Policy) -> IoH) -> (Vec<OpKind>, u64) {
    let io = f(&Policy::Pure);
    let ev = events(&io);
    let n = stats(&io).calls;
    (ev.iter().map(|e| e.op).collect(), n)
}

fn exec_full_rec(store: Shared, started: bool, ops: &[Op], sources: &[Shared], sink: &Policy, src: &Policy) -> (ExecOut, IoH, IoH) {
    let sink_io = ioh(sink.clone());
    set_record(&sink_io, true);
    let src_io = ioh(src.clone());
    let env = ExecEnv { store, start_pos: 0, sink_io: sink_io.clone(), sources: sources.to_vec(), src_io: src_io.clone(), stop_on_err: false, final_finish: true, pre_started: started };
    let out = run_program(ops, &env);
    (out, sink_io, src_io)
}
fn exec_full_rec2(store: Shared, started: bool, ops: &[Op], sources: &[Shared], sink: &Policy, src: &Policy) -> (ExecOut, IoH, IoH) {
    let sink_io = ioh(sink.clone());
    let src_io = ioh(src.clone());
    set_record(&src_io, true);
    let env = ExecEnv { store, start_pos: 0, sink_io: sink_io.clone(), sources: sources.to_vec(), src_io: src_io.clone(), stop_on_err: false, final_finish: true, pre_started: started };
    let out = run_program(ops, &env);
    (out, sink_io, src_io)
}
