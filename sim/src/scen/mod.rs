pub mod common;
pub mod roundtrip;

use crate::runner::Scenario;

pub static ROUNDTRIP: roundtrip::Roundtrip = roundtrip::Roundtrip { full: false };
pub static ROUNDTRIP_FULL: roundtrip::Roundtrip = roundtrip::Roundtrip { full: true };

pub fn all() -> Vec<&'static dyn Scenario> {
    vec![&ROUNDTRIP, &ROUNDTRIP_FULL]
}

pub fn lookup(name: &str) -> Option<&'static dyn Scenario> {
    all().into_iter().find(|s| s.name() == name)
}

pub struct PropCfg {
    pub id: &'static str,
    pub level: &'static str,
    pub scenarios: Vec<&'static dyn Scenario>,
    pub assumptions: Vec<&'static str>,
}

pub fn props() -> Vec<PropCfg> {
    vec![
        PropCfg { id: "C01", level: "exploration", scenarios: vec![&ROUNDTRIP], assumptions: vec!["reference model follows documented behaviour only (DESIGN R3/R4)", "codec crates are trusted", "format-ambiguous inputs are skipped and counted (R2)"] },
        PropCfg { id: "C02", level: "exploration", scenarios: vec![&ROUNDTRIP_FULL], assumptions: vec!["independent parser written from APPNOTE is the judge; codec crates shared with the crate under test", "literal 0xFFFF/0xFFFFFFFF without ZIP64 accepted"] },
    ]
}
