pub mod chunk;
pub mod clones;
pub mod common;
pub mod extract;
pub mod foreign;
pub mod stream;
pub mod crypt;
pub mod hostile;
pub mod iofault;
pub mod prog;
pub mod pyx;
pub mod rawhuge;

use crate::runner::Scenario;
use prog::{Mode, Roundtrip};

pub static ROUNDTRIP: Roundtrip = Roundtrip { mode: Mode::C01 };
pub static ROUNDTRIP_FULL: Roundtrip = Roundtrip { mode: Mode::C02 };
pub static STATEMACHINE: Roundtrip = Roundtrip { mode: Mode::C12 };
pub static APPEND: Roundtrip = Roundtrip { mode: Mode::C13 };
pub static RAWCOPY: Roundtrip = Roundtrip { mode: Mode::C14 };
pub static ALIGN: Roundtrip = Roundtrip { mode: Mode::C17 };
pub static ZIP64: Roundtrip = Roundtrip { mode: Mode::C08 };
pub static CHUNKING: chunk::Chunking = chunk::Chunking;
pub static IOFAULT: iofault::IoFault = iofault::IoFault;
pub static HOSTILE: hostile::Hostile = hostile::Hostile { crc: false };
pub static HOSTILE_CRC: hostile::Hostile = hostile::Hostile { crc: true };
pub static FOREIGN: foreign::Foreign = foreign::Foreign { z64: false };
pub static FOREIGN_Z64: foreign::Foreign = foreign::Foreign { z64: true };
pub static STREAM: stream::Stream = stream::Stream;
pub static STREAM_HUGE: stream::StreamHuge = stream::StreamHuge;
pub static RAWCOPY_HUGE: rawhuge::RawHuge = rawhuge::RawHuge;
pub static EXTRACT: extract::Extract = extract::Extract;
pub static CLONES: clones::Clones = clones::Clones;
pub static CLONES_SHUTTLE: clones::ClonesShuttle = clones::ClonesShuttle;
pub static PYJUDGE: pyx::PyJudge = pyx::PyJudge;
pub static PYPRODUCER: pyx::PyProducer = pyx::PyProducer;
pub static BITROT: crypt::Bitrot = crypt::Bitrot;
pub static AES: crypt::AesSc = crypt::AesSc;
pub static ZIPCRYPTO: crypt::ZipCryptoSc = crypt::ZipCryptoSc;

pub fn all() -> Vec<&'static dyn Scenario> {
    vec![&ROUNDTRIP, &ROUNDTRIP_FULL, &STATEMACHINE, &APPEND, &RAWCOPY, &ALIGN, &ZIP64, &CHUNKING, &IOFAULT, &HOSTILE, &HOSTILE_CRC, &BITROT, &AES, &ZIPCRYPTO, &FOREIGN, &FOREIGN_Z64, &STREAM, &STREAM_HUGE, &RAWCOPY_HUGE, &EXTRACT, &CLONES, &CLONES_SHUTTLE, &PYJUDGE, &PYPRODUCER]
}

pub fn lookup(name: &str) -> Option<&'static dyn Scenario> {
    all().into_iter().find(|s| s.name() == name)
}

pub struct PropCfg {
    pub id: &'static str,
    pub level: &'static str,
    pub scenarios: Vec<&'static dyn Scenario>,
    pub assumptions: Vec<&'static str>,
}

const A_MODEL: &str = "reference model follows documented behaviour only (DESIGN R3/R4/R6); format-ambiguous inputs are skipped and counted (R2)";
const A_CODEC: &str = "codec and crypto primitive crates are trusted (shared with the crate under test)";

pub fn props() -> Vec<PropCfg> {
    vec![
        PropCfg { id: "C01", level: "exploration", scenarios: vec![&ROUNDTRIP], assumptions: vec![A_MODEL, A_CODEC] },
        PropCfg { id: "C02", level: "exploration", scenarios: vec![&ROUNDTRIP_FULL, &ZIP64, &RAWCOPY_HUGE, &PYJUDGE], assumptions: vec!["independent parser written from APPNOTE is the judge", A_CODEC, "literal 0xFFFF/0xFFFFFFFF without ZIP64 accepted"] },
        PropCfg { id: "C03", level: "exploration", scenarios: vec![&FOREIGN, &PYPRODUCER], assumptions: vec![A_CODEC, "the independent builder's own record of what it wrote is the oracle; CP437 decoding uses the harness's own table", "format-ambiguous layouts (signature bytes at the probe positions) are skipped and counted (R2)"] },
        PropCfg { id: "C04", level: "fault_enumeration", scenarios: vec![&BITROT, &HOSTILE_CRC], assumptions: vec![A_CODEC, "own CRC-32 implementation recomputes the checksum of the returned bytes", "AE-2 entries are exempt (covered by C16)"] },
        PropCfg { id: "C05", level: "exploration", scenarios: vec![&HOSTILE], assumptions: vec!["heap bound while opening: 1024 x input length + 8 MiB, measured by a counting global allocator (R9)", "step budget 4M + 16 x length I/O calls per handle; a wall-clock watchdog covers loops that perform no I/O", "harness built with overflow-checks and debug-assertions on"] },
        PropCfg { id: "C07", level: "exploration", scenarios: vec![&EXTRACT], assumptions: vec!["the sink is the real kernel file system, confined to a fresh sandbox under /verif/target/sandbox whose whole tree outside the target is snapshotted (path, type, size, mode, mtime, content hash) before and after", "generated '..' chains are at most 14 long and absolute names point into the sandbox's canary directory, so even a real escape cannot leave the sandbox", "host path semantics are Unix", A_CODEC] },
        PropCfg { id: "C08", level: "exploration", scenarios: vec![&ZIP64, &FOREIGN_Z64, &RAWCOPY_HUGE], assumptions: vec![A_MODEL, A_CODEC, "sizes and offsets beyond 2^32 are realised on a sparse simulated disk (zero pages are not stored); huge payloads are zeros with marker bytes every 64 MiB and at the end"] },
        PropCfg { id: "C09", level: "exploration", scenarios: vec![&CHUNKING], assumptions: vec![A_CODEC, "the unfragmented (Pure policy) execution is the reference outcome"] },
        PropCfg { id: "C10", level: "exploration", scenarios: vec![&STREAM, &STREAM_HUGE], assumptions: vec![A_CODEC, "the seekable reader on the same bytes is the reference (its fidelity is C01/C03's job)", "entries on the 32-bit size limit, archives starting around 4 GiB and more than 65535 entries are realised on the sparse simulated disk (stream_huge)"] },
        PropCfg { id: "C11", level: "fault_enumeration", scenarios: vec![&IOFAULT], assumptions: vec![A_CODEC, "'identical to the failure-free run' is judged on entries/metadata/contents/comment, not on bytes (R7)", "programs end with an explicit finish(), so that no error is swallowed by Drop"] },
        PropCfg { id: "C12", level: "exploration", scenarios: vec![&STATEMACHINE], assumptions: vec![A_MODEL, A_CODEC, "after a failed state-changing call the model only constrains what the property states (R6)"] },
        PropCfg { id: "C13", level: "exploration", scenarios: vec![&APPEND, &PYPRODUCER], assumptions: vec![A_MODEL, A_CODEC, "the crate's own reading of a foreign base archive is the reference for 'unchanged' (reader fidelity is C03's job)"] },
        PropCfg { id: "C14", level: "exploration", scenarios: vec![&RAWCOPY, &RAWCOPY_HUGE], assumptions: vec![A_MODEL, A_CODEC, "source entries are described by the independent parser", "ZIP64-sized sources (rawcopy_huge) are laid down by hand on the sparse disk; their payload is a hole with marker bytes, which a raw copy never decodes"] },
        PropCfg { id: "C15", level: "exploration", scenarios: vec![&ZIPCRYPTO, &PYJUDGE], assumptions: vec![A_CODEC, "independent PKWARE cipher written from the APPNOTE pseudo-code with its own CRC table", "a wrong password passing the 1-byte check is legal (R5): it must then fail by EOF or return the original bytes"] },
        PropCfg { id: "C16", level: "fault_enumeration", scenarios: vec![&AES], assumptions: vec![A_CODEC, "independent WinZip-AES composition (PBKDF2-HMAC-SHA1, AES-CTR little-endian counter, HMAC-SHA1-80) validated at start-up against the third-party fixture in /repo/tests/data", "empty entries carry no tamper obligation (the property says non-empty)"] },
        PropCfg { id: "C17", level: "exploration", scenarios: vec![&ALIGN], assumptions: vec![A_MODEL, A_CODEC] },
        PropCfg { id: "C20", level: "exploration", scenarios: vec![&CLONES, &CLONES_SHUTTLE], assumptions: vec![A_CODEC, "part A: the scheduler owns the interleaving at script-step granularity (one handle thread released at a time); part B (shuttle, every source I/O call and the shared atomic are scheduling points) and the compile-time Send+Sync probe are run by bin/check C20"] },
    ]
}
