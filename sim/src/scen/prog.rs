//! Program scenarios (C01, C02, C12, C13, C14, C17): generated writer programs on a SimDisk,
//! finished or dropped, read back through the crate's reader (model equality) and judged by the
//! independent parser. The modes differ in the program generator and in which oracle classes the
//! property owns.

use super::common::*;
use crate::content::{Content, Hex};
use crate::model::{run_model, MEntry, MKind, Model, ModelCfg, RawExpect};
use crate::ops::*;
use crate::rng::{fnv, mix, Rng};
use crate::runner::*;
use crate::simio::*;
use crate::verify::*;
use serde::{Deserialize, Serialize};
use serde_json::Value;

#[derive(Serialize, Deserialize, Clone, Debug, PartialEq)]
pub struct RtCase {
    pub ops: Vec<Op>,
    pub sources: Vec<Source>,
    pub sink: Policy,
    pub read: Policy,
    pub bufs: Vec<u32>,
    pub start_pos: u64,
    /// C13: the durable image the first Append reopens (None = the program's own first lifetime)
    #[serde(default)]
    pub base: Option<Source>,
    /// read schedule of the raw-copy source archives' reader (short reads are legal: the copy must not depend on them)
    #[serde(default)]
    pub src_read: Option<Policy>,
    /// steer ONE structure of the finished archive (0 end record, 1 directory start, 2 last local header, 3 last
    /// data start, 4 ZIP64 end record if any) onto a block boundary: the program is executed once to learn where
    /// that structure lands, then the sink is pre-positioned so that it lands at m * 2^j - d. Readers and writers
    /// that work in blocks of any power-of-two size meet their block edges inside a record only for such positions.
    #[serde(default)]
    pub steer: Option<(u8, u8, i8)>,
}

#[derive(Clone, Copy, PartialEq, Eq, Debug)]
pub enum Mode {
    C01,
    C02,
    C12,
    C13,
    C14,
    C17,
    /// C08: sizes, offsets and counts at the 16/32-bit limits on the sparse disk
    C08,
}

pub struct Roundtrip {
    pub mode: Mode,
}

/// which violation classes a property owns inside these runs
fn owns(prop: &str, class: &str) -> bool {
    let owner = &class[..class.len().min(3)];
    match prop {
        "C01" => owner == "C01" || class == "model/expected-ok-got-err",
        "C02" => owner == "C02" || owner == "C14" || owner == "C17" || class.starts_with("model/"),
        _ => true,
    }
}

pub fn exec_on(store: Shared, started: bool, ops: &[Op], sources: &[Shared], sink: &Policy, start_pos: u64, final_finish: bool) -> (ExecOut, IoH) {
    let (out, sink_io, _) = exec_full(store, started, ops, sources, sink, &Policy::Pure, start_pos, final_finish);
    (out, sink_io)
}

pub fn exec_full(store: Shared, started: bool, ops: &[Op], sources: &[Shared], sink: &Policy, src: &Policy, start_pos: u64, final_finish: bool) -> (ExecOut, IoH, IoH) {
    let sink_io = ioh(sink.clone());
    let src_io = ioh(src.clone());
    let env = ExecEnv { store, start_pos, sink_io: sink_io.clone(), sources: sources.to_vec(), src_io: src_io.clone(), stop_on_err: false, final_finish, pre_started: started };
    let out = run_program(ops, &env);
    (out, sink_io, src_io)
}

pub fn exec(ops: &[Op], sources: &[Shared], sink: &Policy, start_pos: u64, final_finish: bool, _stop: bool) -> (Shared, ExecOut, IoH) {
    let store = shared_empty();
    let (out, io) = exec_on(store.clone(), false, ops, sources, sink, start_pos, final_finish);
    (store, out, io)
}

pub fn prog_sig(ops: &[Op]) -> u64 {
    let mut h = 0xABCDu64;
    for op in ops {
        h = mix(h, fnv(op.kind().as_bytes()));
        match op {
            Op::StartFile { o, name } | Op::StartExtra { o, name } | Op::StartAligned { o, name, .. } | Op::AddDir { o, name } | Op::AddSymlink { o, name, .. } => {
                h = mix(h, o.method as u64 + ((o.large as u64) << 20) + ((o.password.is_some() as u64) << 21) + ((name.len().min(300) as u64) << 24));
                h = mix(h, o.level.map(|l| (l as i64 + 1000) as u64).unwrap_or(0));
            }
            Op::Write { c, split } => {
                h = mix(h, c.len().min(1 << 20) + ((split.len().min(7) as u64) << 40));
            }
            Op::RawCopy { how, index, rename, .. } => {
                h = mix(h, *how as u64 + ((*index as u64) << 8) + ((rename.is_some() as u64) << 30));
            }
            _ => {}
        }
    }
    h
}

fn to_prop(class: &str, prop: &str) -> String {
    if let Some(rest) = class.strip_prefix("model/") {
        if rest == "expected-err-got-ok" {
            format!("{prop}/unrepresentable-or-misuse-accepted")
        } else {
            format!("{prop}/valid-call-failed")
        }
    } else {
        class.to_string()
    }
}

// ---------------------------------------------------------------------------------------------
// generators

fn shuffled_methods(rs: &mut Rng) -> Vec<u16> {
    let nm = rs.range(1, 4) as usize;
    let mut methods = METHODS.to_vec();
    for i in 0..4 {
        let j = rs.usize_below(4);
        methods.swap(i, j);
    }
    methods.truncate(nm);
    methods
}

fn clean_sources(r: &mut Rng, n: u64, with_unsup: bool) -> Vec<Source> {
    let mut sources = vec![];
    for _ in 0..n {
        let mut s = gen_source(r);
        if let Source::Built(l) = &mut s {
            l.trailing = 0;
            for e in l.entries.iter_mut() {
                e.enc = None;
                if !with_unsup && !matches!(e.method, 0 | 8 | 12 | 93) {
                    e.method = 8;
                }
            }
            if l.entries.is_empty() {
                l.entries.push(Default::default());
            }
        }
        sources.push(s);
    }
    sources
}

/// C12: arbitrary sequences over the full alphabet with small parameter domains
fn gen_chaotic(r: &mut Rng, rs: &mut Rng, n_sources: usize, src_lens: &[usize]) -> Vec<Op> {
    let depth = match rs.below(10) {
        0..=5 => rs.range(1, 8),
        6..=8 => rs.range(1, 30),
        _ => rs.range(1, 200),
    };
    // swarm: which op kinds exist at all in this run
    let kinds: Vec<u8> = (0..14u8).filter(|_| rs.chance(7, 10)).collect();
    let kinds = if kinds.is_empty() { vec![0u8, 3] } else { kinds };
    let names = ["a", "b", "d/", "a"];
    let mut ops = vec![];
    let small_opts = |r: &mut Rng| -> Opts {
        let method = r.pickc(&[0u16, 0, 8, 8, 12, 93, 14, 99, 1]);
        let level = match r.below(6) {
            0 | 1 => None,
            2 => Some(r.pickc(&[-131073i32, -131072, -8, -7, -1, 0, 1, 9, 10, 22, 23, 100, i32::MIN, i32::MAX])),
            _ => gen_level(r, method),
        };
        Opts { method, level, dos: (0x21, 0), ctor: None, perm: if r.chance(1, 3) { Some(r.below(512) as u32) } else { None }, large: r.chance(1, 5), password: None, via_path: None }
    };
    let small_content = |r: &mut Rng| -> Content {
        match r.below(4) {
            0 => Content::Lit(Hex(vec![])),
            1 => Content::Lit(Hex(b"xyz".to_vec())),
            2 => Content::Run { byte: b'a', len: 300 },
            _ => Content::Rand { len: r.below(2000), seed: r.below(1000) },
        }
    };
    let extra_bytes = |r: &mut Rng| -> Vec<u8> {
        match r.below(10) {
            0 => vec![],
            1 | 2 | 3 => gen_extra_valid(r, 200),
            4 => {
                // reserved id
                // any of the reserved header IDs (the whole table, and the low range), not a favourite few
                let id = if r.chance(1, 4) { r.below(32) as u16 } else { crate::model::RESERVED_IDS[r.usize_below(crate::model::RESERVED_IDS.len())] };
                let mut v = id.to_le_bytes().to_vec();
                v.extend_from_slice(&2u16.to_le_bytes());
                v.extend_from_slice(&[1, 2]);
                v
            }
            5 => vec![1, 0, 8, 0, 0, 0, 0, 0, 0, 0, 0, 0], // ZIP64 id
            6 => vec![0xef, 0xbe, 9, 0, 1, 2],               // truncated
            7 => vec![0xef],                                 // incomplete header
            8 => {
                // just around the limit next to the ZIP64 record
                let n = r.pickc(&[65511usize, 65512, 65515, 65516, 65531, 65535]) - 4;
                let mut v = 0xbeefu16.to_le_bytes().to_vec();
                v.extend_from_slice(&(n as u16).to_le_bytes());
                v.extend_from_slice(&vec![7u8; n]);
                v
            }
            _ => {
                let mut v = gen_extra_valid(r, 100);
                v.extend_from_slice(&gen_extra_valid(r, 100));
                v
            }
        }
    };
    while (ops.len() as u64) < depth {
        let k = *r.pick(&kinds);
        let mut name = r.pick(&names).to_string();
        if r.chance(1, 60) {
            // names at the 16-bit limit, with and without a trailing separator (a directory is stored under name + '/')
            let n = r.pickc(&[65533usize, 65534, 65535, 65536, 65537]);
            name = "n".repeat(n - 1);
            name.push(r.pickc(&['n', '/', '\\']));
        }
        match k {
            0 => {
                let mut o = small_opts(r);
                if r.chance(1, 6) {
                    o.password = Some(Hex(b"pw".to_vec()));
                }
                ops.push(Op::StartFile { name, o });
            }
            1 => ops.push(Op::StartAligned { name, o: small_opts(r), align: r.pickc(&[0u16, 1, 2, 4, 64, 4096, 65535, 40000]) }),
            2 => ops.push(Op::StartExtra { name, o: small_opts(r) }),
            3 | 4 => {
                let c = if r.chance(1, 3) { Content::Lit(Hex(extra_bytes(r))) } else { small_content(r) };
                let split = gen_split(r, c.len());
                ops.push(Op::Write { c, split });
            }
            5 => ops.push(Op::EndLocal),
            6 => ops.push(Op::EndExtra),
            7 => ops.push(Op::AddDir { name, o: small_opts(r) }),
            8 => ops.push(Op::AddSymlink { name, target: "t".into(), o: small_opts(r) }),
            9 => ops.push(Op::SetComment { c: Hex(vec![b'c'; r.below(5) as usize]) }),
            10 => {
                if n_sources > 0 {
                    let src = r.usize_below(n_sources);
                    let n = src_lens.get(src).copied().unwrap_or(0);
                    if n > 0 {
                        ops.push(Op::RawCopy { src, how: r.below(3) as u8, index: r.usize_below(n), rename: if r.chance(1, 2) { Some("r".into()) } else { None } });
                    }
                }
            }
            11 => ops.push(Op::Flush),
            12 => {
                if r.chance(1, 3) {
                    ops.push(Op::Finish)
                } else if r.chance(1, 4) {
                    // a call that must be rejected for an unrepresentable input, then life goes on
                    if r.chance(1, 2) {
                        ops.push(Op::StartFile { name: "n".repeat(65536 + r.below(10) as usize), o: Opts::default() });
                    } else {
                        ops.push(Op::SetComment { c: Hex(vec![b'c'; 65536 + r.below(10) as usize]) });
                        ops.push(Op::Finish);
                        ops.push(Op::SetComment { c: Hex(b"short".to_vec()) });
                    }
                }
            }
            _ => {
                // an extra-data entry done properly
                ops.push(Op::StartExtra { name, o: small_opts(r) });
                ops.push(Op::Write { c: Content::Lit(Hex(extra_bytes(r))), split: vec![] });
                if r.chance(1, 2) {
                    ops.push(Op::EndLocal);
                    ops.push(Op::Write { c: Content::Lit(Hex(extra_bytes(r))), split: vec![] });
                }
                ops.push(Op::EndExtra);
            }
        }
    }
    ops
}

impl Scenario for Roundtrip {
    fn name(&self) -> &'static str {
        match self.mode {
            Mode::C01 => "roundtrip",
            Mode::C02 => "roundtrip_full",
            Mode::C12 => "statemachine",
            Mode::C13 => "append",
            Mode::C14 => "rawcopy",
            Mode::C17 => "align",
            Mode::C08 => "zip64",
        }
    }
    fn total(&self, tier: Tier) -> u64 {
        let q = match self.mode {
            Mode::C01 => 40_000,
            Mode::C02 => 30_000,
            Mode::C12 => 100_000,
            Mode::C13 => 25_000,
            Mode::C14 => 30_000,
            Mode::C17 => 50_000,
            Mode::C08 => 1_200,
        };
        match tier {
            Tier::Quick => q,
            Tier::Thorough => {
                if self.mode == Mode::C08 {
                    q * 8
                } else {
                    q * 40
                }
            }
        }
    }
    fn rule(&self) -> &'static str {
        "one case = one generated writer program (entry kinds, methods, levels, names, times, modes, comments, extra data, alignment, raw copies, append rounds, caller write splits) + sink short-write schedule + read-back short-read schedule + caller buffer sizes; executed twice (finish / drop). Non-trivial = the archive completed and at least one entry with content (or a raw copy) was read back and compared; distinct = hash of (op kinds, methods, levels, flags, name/content length classes) mixed with the I/O schedule digest"
    }
    fn gen(&self, seed: u64, idx: u64, tier: Tier) -> Value {
        let s = mix(mix(seed, fnv(self.name().as_bytes())), idx);
        let mut r = Rng::derive(s, "workload");
        let mut rs = Rng::derive(s, "swarm");
        let mut rio = Rng::derive(s, "io");
        let big = tier == Tier::Thorough && rs.chance(1, 400);
        let max_content = *rs.pick(&[16u64, 16, 300, 300, 4096, 4096, 70_000, if big { 8 << 20 } else { 300_000 }]);
        let methods = shuffled_methods(&mut rs);
        let full = self.mode != Mode::C01;
        let mut sources = vec![];
        let want_src = match self.mode {
            Mode::C01 => 0,
            // "every preceding archive state": one C17 run in four has a raw-copy source at hand
            Mode::C17 => Rng::derive(s, "c17-src").chance(1, 4) as u64,
            Mode::C14 => rs.range(1, 2),
            Mode::C13 => {
                if rs.chance(1, 4) {
                    1
                } else {
                    0
                }
            }
            _ => {
                if rs.chance(1, 2) {
                    rs.range(1, 2)
                } else {
                    0
                }
            }
        };
        sources.extend(clean_sources(&mut r, want_src, self.mode == Mode::C14));
        let src_lens: Vec<usize> = sources.iter().map(|s| source_entries(&s.image()).len()).collect();
        let mut cfg = GenCfg {
            max_entries: if rs.chance(1, 20) { 40 } else { 8 },
            max_content,
            methods,
            extra: full,
            aligned: full,
            enc: full,
            n_sources: sources.len(),
            src_lens: src_lens.clone(),
            append: full,
            long_names: rs.chance(1, 6),
            comment_max: 65535,
            misc_ops: true,
        };
        let mut base = None;
        let mut start_pos = if rs.chance(1, 10) { rs.below(5000) } else { 0 };
        let mut ops = match self.mode {
            Mode::C12 => gen_chaotic(&mut r, &mut rs, sources.len(), &src_lens),
            Mode::C13 => {
                // history: base + rounds
                let rounds = match rs.below(10) {
                    0 => 0,
                    1..=6 => rs.range(1, 2),
                    _ => rs.range(1, if tier == Tier::Thorough { 12 } else { 4 }),
                };
                cfg.append = false;
                cfg.max_entries = 3;
                let mut ops = vec![];
                if rs.chance(1, 2) {
                    let mut l = gen_layout(&mut r, 5, max_content.min(5000), true);
                    l.trailing = 0;
                    if Rng::derive(s, "base-hole").chance(1, 7) {
                        // a base whose entries really lie beyond 4 GiB (behind prepended data or not): a hole on the
                        // sparse disk, offsets in ZIP64 records - "archives with prepended data, ZIP64 structures"
                        let mut rh = Rng::derive(s, "base-hole2");
                        l.hole = match rh.below(3) {
                            0 => (1u64 << 32) - 1 - rh.below(400),
                            1 => (1u64 << 32) + rh.below(400),
                            _ => (1u64 << 32) - 600 + rh.below(1200),
                        };
                    }
                    // D12 aside, ZIP64 end records the base does not need are part of the space
                    base = Some(Source::Built(l));
                    start_pos = 0;
                } else {
                    ops.extend(gen_program(&mut r, &cfg));
                    if r.chance(1, 2) {
                        ops.push(Op::Finish);
                    }
                }
                for _ in 0..rounds {
                    ops.push(Op::Append);
                    if r.chance(1, 12) {
                        // a rejected call inside an append round must not cost an existing entry
                        if r.chance(1, 2) {
                            ops.push(Op::StartFile { name: "n".repeat(65536), o: Opts::default() });
                        } else {
                            ops.push(Op::SetComment { c: Hex(vec![b'c'; 65536]) });
                            ops.push(Op::Finish);
                            ops.push(Op::SetComment { c: Hex(b"short".to_vec()) });
                        }
                    }
                    if r.chance(4, 5) {
                        ops.extend(gen_program(&mut r, &cfg));
                    }
                    if r.chance(1, 2) {
                        ops.push(Op::Finish);
                    }
                }
                if base.is_some() && !matches!(ops.first(), Some(Op::Append)) {
                    ops.insert(0, Op::Append);
                }
                ops
            }
            Mode::C14 => {
                cfg.extra = rs.chance(1, 3);
                cfg.aligned = false;
                cfg.enc = false;
                cfg.append = rs.chance(1, 6);
                let mut ops = gen_program(&mut r, &cfg);
                // make sure raw copies are there: first / last / only positions included
                let n = src_lens.iter().sum::<usize>();
                if n > 0 {
                    for _ in 0..r.range(1, 3) {
                        let src = r.usize_below(sources.len());
                        if src_lens[src] == 0 {
                            continue;
                        }
                        let op = Op::RawCopy { src, how: r.below(3) as u8, index: r.usize_below(src_lens[src]), rename: if r.chance(1, 2) { Some(gen_name(&mut r, &[], false)) } else { None } };
                        let pos = match r.below(3) {
                            0 => 0,
                            1 => ops.len(),
                            _ => r.usize_below(ops.len() + 1),
                        };
                        // never split a Start*/Write group in a way that changes legality: insert only before entry-starting ops
                        let pos = (pos..=ops.len()).find(|p| *p == ops.len() || matches!(ops[*p], Op::StartFile { .. } | Op::AddDir { .. } | Op::AddSymlink { .. } | Op::StartExtra { .. } | Op::RawCopy { .. } | Op::SetComment { .. })).unwrap_or(ops.len());
                        ops.insert(pos, op);
                    }
                    if r.chance(1, 8) {
                        ops.retain(|o| matches!(o, Op::RawCopy { .. }));
                        ops.truncate(1);
                    }
                    {
                        // a raw copy the writer has to refuse (its new name does not fit the 16-bit length field) in
                        // front of the real ones: whatever the refused call had already fetched or prepared must not
                        // turn up in a later copy
                        let mut rr = Rng::derive(s, "refused-raw-copy");
                        if rr.chance(1, 8) {
                            let src = rr.usize_below(sources.len());
                            if src_lens[src] > 0 {
                                let at = ops.iter().position(|o| matches!(o, Op::RawCopy { .. })).unwrap_or(ops.len());
                                ops.insert(at, Op::RawCopy { src, how: rr.below(3) as u8, index: rr.usize_below(src_lens[src]), rename: Some("n".repeat(65536 + rr.below(10) as usize)) });
                            }
                        }
                    }
                    if r.chance(1, 10) {
                        ops.push(Op::SetComment { c: Hex(vec![b'c'; 65536]) });
                        ops.push(Op::Finish);
                        ops.push(Op::SetComment { c: Hex(b"short".to_vec()) });
                    }
                }
                ops
            }
            Mode::C17 => {
                cfg.enc = false;
                cfg.append = false;
                cfg.n_sources = 0;
                cfg.max_content = max_content.min(5000);
                start_pos = match rs.below(4) {
                    0 => 0,
                    1 => rs.below(70000),
                    _ => rs.below(5000),
                };
                if Rng::derive(s, "far").chance(1, 8) {
                    // "every preceding archive state": the archive does not start at offset 0 but around / beyond
                    // 4 GiB on the sparse disk, where arithmetic narrower than 64 bits goes wrong for alignments
                    // that are not powers of two
                    let mut rf = Rng::derive(s, "far2");
                    start_pos = match rf.below(4) {
                        0 => (1u64 << 32) - rf.below(70_000),
                        1 => (1u64 << 32) + rf.below(1 << 20),
                        2 => (1u64 << 40) + rf.below(1 << 20),
                        _ => (1u64 << 33) - 1 - rf.below(100),
                    };
                }
                let mut ops = vec![];
                let mut used = vec![];
                let mut rp = Rng::derive(s, "c17-pre");
                {
                    // "every preceding archive state" includes an archive from elsewhere, opened for append, that has
                    // data in front of it (a stub): its recorded offsets are relative to the archive, the bytes the
                    // aligned entry must sit on are those of the file
                    let mut rb = Rng::derive(s, "c17-base");
                    if rb.chance(1, 10) {
                        let mut l = gen_layout(&mut rb, 3, 200, false);
                        l.trailing = 0;
                        l.force_z64_end = false;
                        l.prefix = rb.pickc(&[1u32, 2, 3, 5, 22, 63, 100, 513, 4097]) + rb.below(3) as u32;
                        l.prefix_seed = rb.next_u64();
                        for e in l.entries.iter_mut() {
                            e.dd = 0;
                        }
                        base = Some(Source::Built(l));
                        start_pos = 0;
                        ops.push(Op::Append);
                    }
                }
                for _ in 0..r.range(1, 5) {
                    // what precedes the aligned / extra-data entry: nothing, or an entry of another kind that leaves
                    // its own state behind in the writer (raw copy, writer reopened for append, directory, symlink,
                    // encrypted entry)
                    if rp.chance(1, 4) {
                        match rp.below(6) {
                            0 | 1 if !src_lens.is_empty() && src_lens[0] > 0 => {
                                ops.push(Op::RawCopy { src: 0, how: rp.below(3) as u8, index: rp.usize_below(src_lens[0]), rename: Some(format!("copied{}", ops.len())) });
                            }
                            2 => {
                                ops.push(Op::Finish);
                                ops.push(Op::Append);
                            }
                            3 => ops.push(Op::AddDir { name: format!("dir{}", ops.len()), o: Opts::default() }),
                            4 => ops.push(Op::AddSymlink { name: format!("link{}", ops.len()), target: "target".into(), o: Opts::default() }),
                            _ => {
                                ops.push(Op::StartFile { name: format!("enc{}", ops.len()), o: Opts { password: Some(Hex(b"pw".to_vec())), ..Opts::default() } });
                                ops.push(Op::Write { c: Content::Lit(Hex(b"secret".to_vec())), split: vec![] });
                            }
                        }
                    }
                    let name = gen_name(&mut r, &used, false);
                    used.push(name.clone());
                    let o = gen_opts(&mut r, &cfg.methods);
                    match r.below(10) {
                        0..=4 => {
                            let align = match r.below(4) {
                                0 => r.pickc(&[0u16, 1, 2, 3, 4, 8, 64, 512, 4096, 32768, 65535]),
                                1 => 1 << r.below(16),
                                _ => r.below(65536) as u16,
                            };
                            ops.push(Op::StartAligned { name, o, align });
                            gen_file_body(&mut r, &cfg, &mut ops);
                        }
                        5..=7 => {
                            // beyond 4 GiB the central record needs room for a ZIP64 offset record next to the user's
                            // data: near-maximal extra data is then refused at finish(), which the model (which does not
                            // track offsets) cannot predict - kept out of the far-start cases by construction
                            let far = start_pos >= (1u64 << 32) - 200_000;
                            let mx = if !far && r.chance(1, 10) { 65535 } else { 3000 };
                            // malformed / reserved records must be refused (truncated tail, ZIP64 id, reserved ids)
                            let bad_extra = |r: &mut Rng| -> Vec<u8> {
                                let mut v = gen_extra_valid(r, 60);
                                match r.below(4) {
                                    0 => v.extend_from_slice(&[0xef, 0xbe, 9, 0, 1, 2]),
                                    1 => v.extend_from_slice(&[1, 0, 8, 0, 0, 0, 0, 0, 0, 0, 0, 0]),
                                    2 => {
                                        v.extend_from_slice(&(if r.chance(1, 4) { r.below(32) as u16 } else { crate::model::RESERVED_IDS[r.usize_below(crate::model::RESERVED_IDS.len())] }).to_le_bytes());
                                        v.extend_from_slice(&[2, 0, 1, 2]);
                                    }
                                    _ => v.push(0xef),
                                }
                                v
                            };
                            let local = if r.chance(1, 12) && !far { big_extra(&mut r) } else if r.chance(1, 10) { bad_extra(&mut r) } else { gen_extra_valid(&mut r, mx) };
                            ops.push(Op::StartExtra { name, o });
                            ops.push(Op::Write { c: Content::Lit(Hex(local.clone())), split: gen_split(&mut r, local.len() as u64) });
                            if r.chance(1, 2) {
                                ops.push(Op::EndLocal);
                                let central = if r.chance(1, 12) && !far { big_extra(&mut r) } else if r.chance(1, 8) { bad_extra(&mut r) } else { gen_extra_valid(&mut r, mx) };
                                ops.push(Op::Write { c: Content::Lit(Hex(central)), split: vec![] });
                            }
                            ops.push(Op::EndExtra);
                            gen_file_body(&mut r, &cfg, &mut ops);
                        }
                        _ => {
                            ops.push(Op::StartFile { name, o });
                            gen_file_body(&mut r, &cfg, &mut ops);
                        }
                    }
                }
                ops
            }
            Mode::C08 => {
                const G4: u64 = 1 << 32;
                cfg.enc = false;
                cfg.n_sources = 0;
                cfg.max_content = 300;
                cfg.max_entries = 3;
                cfg.long_names = false;
                cfg.comment_max = 100;
                let slot = if tier == Tier::Quick { idx } else { idx % 600 };
                let mut ops: Vec<Op> = vec![];
                let big = |len: u64, large: bool, method: u16, r: &mut Rng| -> Vec<Op> {
                    let split: Vec<u32> = if r.chance(1, 2) { vec![] } else { (0..6).map(|_| r.pickc(&[1u32 << 20, 65536, 1000_000, 4096])).collect() };
                    vec![
                        Op::StartFile { name: format!("big{len}"), o: Opts { method, large, ..Opts::default() } },
                        Op::Write { c: Content::Sparse { len, seed: r.below(1000) }, split },
                    ]
                };
                match slot {
                    0..=7 => {
                        // size thresholds x large flag
                        let len = [G4 - 2, G4 - 1, G4, G4 + 1][(slot % 4) as usize];
                        ops.extend(big(len, slot < 4, 0, &mut r));
                        if r.chance(1, 2) {
                            ops.push(Op::StartFile { name: "after".into(), o: Opts::default() });
                            ops.push(Op::Write { c: Content::Lit(Hex(b"tail".to_vec())), split: vec![] });
                        }
                        start_pos = 0;
                    }
                    8..=12 => {
                        let n = [65534u32, 65535, 65536, 65537, 70000][(slot - 8) as usize];
                        ops.push(Op::Many { n, prefix: "e".into() });
                        if r.chance(1, 2) {
                            ops.push(Op::SetComment { c: Hex(b"many entries".to_vec()) });
                        }
                        start_pos = 0;
                    }
                    13 => {
                        // a size exactly at the limit, at an offset beyond it (literal 0xFFFFFFFF next to a ZIP64 record)
                        start_pos = G4 + 100;
                        ops.extend(big(G4 - 1, true, 0, &mut r));
                    }
                    14 => {
                        start_pos = G4 - 50;
                        ops.extend(big(G4 - 1, true, 0, &mut r));
                        ops.push(Op::StartFile { name: "after".into(), o: Opts::default() });
                    }
                    15 => {
                        ops.push(Op::Many { n: 65535, prefix: "e".into() });
                        ops.push(Op::Finish);
                        ops.push(Op::Append);
                        ops.push(Op::StartFile { name: "one more".into(), o: Opts::default() });
                        ops.push(Op::Write { c: Content::Lit(Hex(b"x".to_vec())), split: vec![] });
                        start_pos = 0;
                    }
                    16 => {
                        ops.push(Op::Many { n: 65536, prefix: "e".into() });
                        ops.push(Op::Append);
                        ops.push(Op::Many { n: 3, prefix: "f".into() });
                        start_pos = 0;
                    }
                    22 | 23 => {
                        // a compressible entry beyond the limit (uncompressed size in the ZIP64 record, compressed size
                        // not) whose header ALSO lies beyond 4 GiB: the central record then carries the first and the
                        // third of its three possible values. Zstd level 1 / Deflate level 1 keep 4 GiB of zeros cheap.
                        start_pos = if slot == 22 { G4 + r.below(1000) } else { G4 - 1 - r.below(30) };
                        let (m, lvl) = if tier == Tier::Thorough { *r.pick(&[(93u16, 1), (8, 1), (12, 1)]) } else { (93u16, 1) };
                        ops.push(Op::StartFile { name: "pad".into(), o: Opts::default() });
                        ops.push(Op::Write { c: Content::Lit(Hex(b"0123456789".to_vec())), split: vec![] });
                        ops.push(Op::StartFile { name: "big-compressed".into(), o: Opts { method: m, level: Some(lvl), large: true, ..Opts::default() } });
                        ops.push(Op::Write { c: Content::Sparse { len: G4 + r.below(3), seed: r.below(1000) }, split: vec![] });
                        ops.push(Op::StartFile { name: "after".into(), o: Opts::default() });
                        ops.push(Op::Write { c: Content::Lit(Hex(b"tail".to_vec())), split: vec![] });
                    }
                    24 | 25 => {
                        // the entry that crosses 4 GiB is started through the aligned / extra-data calls (the per-entry
                        // accounting is set up in start_entry and touched again when the extra-data phase ends)
                        start_pos = 0;
                        let o = Opts { method: 0, large: true, ..Opts::default() };
                        if r.chance(1, 2) {
                            ops.push(Op::StartFile { name: "head".into(), o: Opts::default() });
                            ops.push(Op::Write { c: Content::Lit(Hex(b"head".to_vec())), split: vec![] });
                        }
                        if slot == 24 {
                            ops.push(Op::StartAligned { name: "big-aligned".into(), o, align: r.pickc(&[4096u16, 64, 512, 3]) });
                        } else {
                            ops.push(Op::StartExtra { name: "big-extra".into(), o });
                            ops.push(Op::Write { c: Content::Lit(Hex(vec![0xef, 0xbe, 4, 0, 1, 2, 3, 4])), split: vec![] });
                            if r.chance(1, 2) {
                                ops.push(Op::EndLocal);
                                ops.push(Op::Write { c: Content::Lit(Hex(vec![0xad, 0xde, 2, 0, 9, 9])), split: vec![] });
                            }
                            ops.push(Op::EndExtra);
                        }
                        ops.push(Op::Write { c: Content::Sparse { len: G4 + 1 + r.below(3), seed: r.below(1000) }, split: vec![] });
                        ops.push(Op::StartFile { name: "after".into(), o: Opts::default() });
                        ops.push(Op::Write { c: Content::Lit(Hex(b"tail".to_vec())), split: vec![] });
                    }
                    17 if tier == Tier::Thorough => {
                        ops.extend(big(5 * (1 << 30), true, 0, &mut r));
                        start_pos = 0;
                    }
                    18..=21 if tier == Tier::Thorough => {
                        // compressing methods across the threshold (highly compressible: the compressed size stays small)
                        let m = METHODS[(slot - 18) as usize];
                        ops.extend(big(G4 + 1, true, m, &mut r));
                        start_pos = 0;
                    }
                    _ => {
                        // offset thresholds: the sink is pre-positioned so that header offsets, the directory
                        // offset and the directory size land at 2^32-2 .. 2^32+1
                        let d = match r.below(4) {
                            0 => r.below(8),
                            1 => r.below(120),
                            _ => r.below(600),
                        };
                        start_pos = if r.chance(1, 8) { G4 + r.below(100) } else { G4 - d };
                        ops = gen_program(&mut r, &cfg);
                        if ops.is_empty() {
                            ops.push(Op::StartFile { name: "a".into(), o: Opts::default() });
                        }
                        if r.chance(1, 5) {
                            ops.push(Op::Append);
                            ops.extend(gen_program(&mut r, &cfg));
                        }
                    }
                }
                ops
            }
            _ => gen_program(&mut r, &cfg),
        };
        if self.mode == Mode::C02 && rs.chance(1, 12) {
            // one unrepresentable input somewhere
            let which = r.below(3);
            let n = r.pickc(&[65536usize, 65537, 65541, 70000, 131072]);
            let pos = r.usize_below(ops.len() + 1);
            match which {
                0 => {
                    ops.insert(pos, Op::StartFile { name: "n".repeat(n), o: Opts::default() });
                }
                1 => {
                    ops.push(Op::SetComment { c: Hex(vec![b'c'; n]) });
                    if r.chance(1, 2) {
                        ops.push(Op::Finish);
                        ops.push(Op::SetComment { c: Hex(b"short".to_vec()) });
                    }
                }
                _ => {
                    let mut ex = vec![];
                    while ex.len() < n {
                        ex.extend_from_slice(&0xbeefu16.to_le_bytes());
                        ex.extend_from_slice(&60000u16.to_le_bytes());
                        ex.extend_from_slice(&vec![0u8; 60000]);
                    }
                    ops.push(Op::StartExtra { name: "x".into(), o: Opts::default() });
                    ops.push(Op::Write { c: Content::Lit(Hex(ex)), split: vec![] });
                    ops.push(Op::EndExtra);
                }
            }
        }
        if self.mode != Mode::C13 && r.chance(1, 2) {
            ops.push(Op::Finish);
        }
        if self.mode == Mode::C12 && r.chance(1, 4) {
            // calls after finish
            ops.push(r.pick(&[Op::Finish, Op::Flush, Op::EndExtra, Op::Write { c: Content::Lit(Hex(b"z".to_vec())), split: vec![] }, Op::StartFile { name: "late".into(), o: Opts::default() }]).clone());
        }
        let huge = ops.iter().any(|o| matches!(o, Op::Write { c, .. } if c.is_sparse()) || matches!(o, Op::Many { .. }));
        let mut case = RtCase { ops, sources, sink: gen_policy_short(&mut rio), read: gen_policy_short(&mut rio), bufs: gen_bufs(&mut rio), start_pos, base, src_read: None, steer: None };
        {
            let mut rt = Rng::derive(s, "steer");
            if !huge && case.base.is_none() && self.mode != Mode::C08 && rt.chance(1, 6) {
                case.steer = Some((rt.below(5) as u8, rt.range(9, 16) as u8, rt.range(0, 6) as i8 - 2));
                case.start_pos = 0;
            }
        }
        if !case.sources.is_empty() && Rng::derive(s, "src-io").chance(2, 3) {
            case.src_read = Some(gen_policy_short(&mut Rng::derive(s, "src-io2")));
        }
        if huge {
            // byte-at-a-time schedules over 4 GiB / 70000 entries would take hours: whole transfers only
            case.sink = Policy::Pure;
            case.read = if rio.chance(1, 2) { Policy::Pure } else { Policy::BufLike { cap: 1 << 16 } };
            case.bufs = vec![];
        }
        serde_json::to_value(case).unwrap_or(Value::Null)
    }

    fn run(&self, case: &Value, ctx: &mut Ctx) -> Verdict {
        let c: RtCase = match serde_json::from_value(case.clone()) {
            Ok(c) => c,
            Err(e) => return Verdict::Harness(format!("bad case: {e}")),
        };
        let prop = ctx.property.clone();
        let (src_stores, src_infos, _) = sources_to_stores(&c.sources);
        let mut c = c;
        if let (Some((which, j, d)), None) = (c.steer, &c.base) {
            let huge = c.ops.iter().any(|o| matches!(o, Op::Write { c, .. } if c.is_sparse()) || matches!(o, Op::Many { .. }));
            if !huge {
                let st = shared_empty();
                let _ = exec_full(st.clone(), false, &c.ops, &src_stores, &Policy::Pure, &Policy::Pure, 0, true);
                let _ = take_panic();
                let img = image_of(&st);
                if let Ok(p) = crate::indep::parse(&img) {
                    let last = p.locals.iter().filter_map(|l| l.as_ref().ok()).max_by_key(|l| l.pos);
                    let pos = match which {
                        1 => p.cd_start,
                        2 => last.map(|l| l.pos).unwrap_or(p.eocd_pos),
                        3 => last.map(|l| l.data_start).unwrap_or(p.eocd_pos),
                        4 => p.z64.as_ref().map(|z| z.rec_pos).unwrap_or(p.eocd_pos),
                        _ => p.eocd_pos,
                    };
                    let block = 1u64 << j.clamp(6, 16);
                    let want = (pos as i64 + d as i64).rem_euclid(block as i64) as u64; // (start + pos) % block == -d
                    c.start_pos = (block - want) % block + if j >= 12 && (pos & 1) == 1 { 1 << 16 } else { 0 };
                    ctx.probe("structure_steered_onto_a_block_boundary");
                }
            }
        }
        let base_img: Option<Shared> = c.base.as_ref().map(|b| b.store());
        let mk_store = || match &base_img {
            Some(b) => std::sync::Arc::new(std::sync::Mutex::new(b.lock().unwrap_or_else(|e| e.into_inner()).clone())),
            None => shared_empty(),
        };
        // run 1: finish; run 2: drop
        let store_f = mk_store();
        let store_d = mk_store();
        let src_pol = c.src_read.clone().unwrap_or(Policy::Pure);
        let (out_f, io_f, sio_f) = exec_full(store_f.clone(), base_img.is_some(), &c.ops, &src_stores, &c.sink, &src_pol, c.start_pos, true);
        let (_out_d, io_d, _sio_d) = exec_full(store_d.clone(), base_img.is_some(), &c.ops, &src_stores, &c.sink, &src_pol, c.start_pos, false);
        if c.src_read.is_some() && stats(&sio_f).fired.values().sum::<u64>() > 0 {
            ctx.probe("raw_copy_source_returned_short_reads");
        }
        ctx.absorb(&io_f);
        ctx.absorb(&io_d);
        let mut m = Model::new(ModelCfg { enforce_unrepresentable: true, bzip2_level0_err: true });
        let mut base_has_dd = false;
        if let Some(b) = &base_img {
            // the crate's own view of the base is the reference for "all previous entries unchanged"
            match base_view(b) {
                Ok((entries, comment, dd)) => {
                    m.entries = entries;
                    m.comment = comment;
                    m.complete = true;
                    m.st = crate::model::St::Closed;
                    base_has_dd = dd;
                }
                Err(e) => return Verdict::Skip(format!("base archive not readable by the crate: {e}")),
            }
        }
        let lookup = |si: usize, idx: usize, how: u8| resolve_src(&src_infos, si, idx, how);
        if let Err(mmis) = run_model(&mut m, &c.ops, &out_f.steps, &out_f.final_res, &lookup) {
            if !owns(&prop, &mmis.class) {
                ctx.probe("other_property:model");
                if prop == "C01" && mmis.class == "model/expected-err-got-ok" {
                    // C01 speaks of sequences that complete: a call the format cannot honour was ACCEPTED, every call
                    // reported success - then the bytes must still read back as the entries that were added
                    let all_ok = out_f.steps.iter().all(|s| s.res.is_ok()) && out_f.final_res.as_ref().map(|r| r.is_ok()).unwrap_or(true);
                    if all_ok && !c.ops.iter().any(|o| matches!(o, Op::Append | Op::RawCopy { .. })) {
                        let want: u64 = c.ops.iter().map(|o| match o {
                            Op::StartFile { .. } | Op::StartAligned { .. } | Op::StartExtra { .. } | Op::AddDir { .. } | Op::AddSymlink { .. } => 1,
                            Op::Many { n, .. } => *n as u64,
                            _ => 0,
                        }).sum();
                        match zip::ZipArchive::new(SimDisk::new(store_f.clone(), Policy::Pure)) {
                            Err(e) => return viol("C01/open-failed", format!("every writer call reported success ({}), but the archive does not open: {}", mmis.detail, zerr_pub(&e))),
                            Ok(ar) if ar.len() as u64 != want => return viol("C01/entry-count", format!("every writer call reported success ({}), {want} entries were added, the reader lists {}", mmis.detail, ar.len())),
                            Ok(_) => {}
                        }
                    }
                }
                return Verdict::Skip("model mismatch owned by another property".into());
            }
            return viol(to_prop(&mmis.class, &prop), mmis.detail);
        }
        let stale_any = out_f.lives.iter().any(|(app, end, len)| *app && end < len);
        if let Some(i) = c.ops.iter().zip(out_f.steps.iter()).position(|(op, st)| matches!(op, Op::Append) && !st.res.is_ok()) {
            // reopening a complete archive for append failed
            if !m.chaos && !m.lenient {
                let detail = format!("new_append failed at op {i}: {:?}", out_f.steps[i].res);
                if stale_any {
                    if prop != "C13" {
                        return Verdict::Skip("append left bytes after the end record (C13 / D12)".into());
                    }
                    return ctx.known_or_viol("D12", "C13/append-open-failed", format!("{detail} [an earlier append round made the archive shorter and left a stale end record]"));
                }
                if owns(&prop, "C13/append-open-failed") {
                    return viol("C13/append-open-failed", detail);
                }
            } else if !m.chaos && !stale_any && i > 0 && matches!(c.ops[i - 1], Op::Finish) && out_f.steps[i - 1].res.is_ok() && owns(&prop, "C13/append-open-failed") {
                // an earlier call of this lifetime was refused (the model is lenient about what the writer did next),
                // but its finish() then reported success: what it vouched for must at least open again
                return viol("C13/append-open-failed", format!("finish() at op {} reported success after an earlier refused call, yet new_append at op {i} cannot reopen the archive: {:?}", i - 1, out_f.steps[i].res));
            }
            return Verdict::Skip("append could not reopen the archive".into());
        }
        for (st, op) in &m.reached {
            ctx.probe(&format!("state_op:{st}:{op}"));
        }
        if m.chaos {
            return Verdict::Skip("append after an incomplete archive".into());
        }
        if !m.complete {
            ctx.probe("archive_not_expected_complete");
            if self.mode == Mode::C08 {
                // an over-long entry was refused: neither finish nor Drop may leave an archive that opens
                // and reports wrapped sizes
                for st in [&store_f, &store_d] {
                    if let Ok(mut ar) = zip::ZipArchive::new(SimDisk::new(st.clone(), Policy::Pure)) {
                        for (i, e) in m.entries.iter().enumerate() {
                            if e.len() > 0xFFFF_FFFF {
                                if let Ok(f) = ar.by_index_raw(i) {
                                    if f.size() != e.len() {
                                        return viol("C08/wrapped-sizes", format!("an entry of {} bytes not declared large was refused, yet the archive opens and reports {} bytes for it", e.len(), f.size()));
                                    }
                                }
                            }
                        }
                    }
                }
                ctx.probe("oversize_entry_refused");
            }
            return Verdict::Pass;
        }
        let img_f_len = len_of(&store_f);
        // bytes surviving after the new end record (an append that made the archive shorter; the sink
        // cannot be truncated): finding D12, C13's business
        let stale_tail = out_f.lives.iter().any(|(app, end, len)| *app && end < len);
        if stale_tail {
            ctx.probe("append_left_stale_tail");
            if prop != "C13" {
                return Verdict::Skip("append left bytes after the end record (C13 / D12)".into());
            }
        }
        let d12 = |ctx: &Ctx, class: &str, detail: String| -> Verdict {
            if stale_tail {
                ctx.known_or_viol("D12", class, format!("{detail} [archive shrank on append: {} stale bytes after the new end record]", img_f_len - out_f.end_pos.unwrap_or(0)))
            } else {
                viol(class, detail)
            }
        };
        if img_f_len >= (256 << 20) {
            let da = store_f.lock().unwrap_or_else(|e| e.into_inner()).digest();
            let db = store_d.lock().unwrap_or_else(|e| e.into_inner()).digest();
            if da != db && owns(&prop, "C01/finish-drop-differ") {
                return viol("C01/finish-drop-differ", "finish() and drop images differ (sparse image digests)".to_string());
            }
        } else {
            let a = image_of(&store_f);
            let b = image_of(&store_d);
            if a != b {
                if owns(&prop, "C01/finish-drop-differ") {
                    return viol("C01/finish-drop-differ", format!("finish() image has {} bytes, drop image {} bytes", a.len(), b.len()));
                }
                ctx.probe("other_property:C01");
            }
        }
        // independent judge (an appended archive may keep stale bytes after its end record: locate the
        // end record at the writer's final position instead of at EOF)
        let indep_res = {
            let g = store_f.lock().unwrap_or_else(|e| e.into_inner());
            let gaps = m.appended || base_has_dd;
            if stale_tail {
                let end = out_f.end_pos.unwrap_or(img_f_len);
                let eocd = end.checked_sub(22 + m.comment.len() as u64);
                match eocd.map(|p| crate::indep::parse_with_eocd(&*g, p)) {
                    Some(Ok(p)) => check_indep_parsed(&*g, p, &m, gaps, ctx),
                    Some(Err(e)) => Err(crate::model::Mismatch { class: "C02/unparseable".into(), detail: e }),
                    None => Err(crate::model::Mismatch { class: "C02/unparseable".into(), detail: "no room for an end record".into() }),
                }
            } else {
                check_indep(&*g, &m, gaps, ctx)
            }
        };
        let mut parsed = None;
        match indep_res {
            Ok(IndepOutcome::Ambiguous(why)) => {
                ctx.probe("ambiguity_skipped");
                return Verdict::Skip(format!("format-inherent ambiguity: {why}"));
            }
            Ok(IndepOutcome::Ok(p)) => parsed = Some(p),
            Err(e) => {
                if owns(&prop, &e.class) {
                    return d12(ctx, &e.class, e.detail);
                }
                ctx.probe(&format!("other_property:{}", &e.class[..3]));
                if prop != "C01" {
                    return Verdict::Skip("violation owned by another property".into());
                }
            }
        }
        if m.lenient {
            // the frozen prefix is also read back through the crate's reader
            let rc = ReadCfg { policy: c.read.clone(), bufs: c.bufs.clone(), max_content_entries: 64, parsed: None };
            if let Err(e) = check_reader(&store_f, &m, &rc, ctx) {
                if owns(&prop, &e.class) {
                    return d12(ctx, &e.class, format!("{} [entries complete before the first failed call must survive it]", e.detail));
                }
            }
            return Verdict::Pass;
        }
        // C17: alignment arithmetic on the image
        if let Some(p) = &parsed {
            for (i, e) in m.entries.iter().enumerate() {
                if let (Some(a), Some(Ok(l))) = (e.align, p.locals.get(i)) {
                    ctx.probe("aligned_entries");
                    if a >= 2 {
                        ctx.probe("aligned_entries_align_ge2");
                        if l.data_start % a as u64 != 0 {
                            if owns(&prop, "C17/misaligned") {
                                return viol("C17/misaligned", format!("entry {i}: data starts at {} which is not a multiple of {a}", l.data_start));
                            }
                        }
                    }
                    let z = if e.large { 20 } else { 0 };
                    if (l.extra.len() as u64).saturating_sub(z) != e.ret && owns(&prop, "C17/pad-return") {
                        return viol("C17/pad-return", format!("entry {i}: start_file_aligned returned {} but {} bytes of extra data were inserted", e.ret, l.extra.len() as u64 - z));
                    }
                }
                if let (Some(ds), Some(Ok(l))) = (e.ret_data_start, p.locals.get(i)) {
                    if ds != l.data_start && owns(&prop, "C17/data-start-return") {
                        return viol("C17/data-start-return", format!("entry {i}: the extra-data call returned data start {ds}, the image says {}", l.data_start));
                    }
                }
            }
        }
        let rc = ReadCfg { policy: c.read.clone(), bufs: c.bufs.clone(), max_content_entries: 64, parsed: parsed.as_ref() };
        if let Err(e) = check_reader(&store_f, &m, &rc, ctx) {
            if owns(&prop, &e.class) {
                return d12(ctx, &e.class, e.detail);
            }
            ctx.probe(&format!("other_property:{}", &e.class[..3]));
        }
        if m.entries.iter().any(|e| e.len() > 0 || e.raw.is_some()) {
            ctx.sig = Some(mix(prog_sig(&c.ops), ctx.digest));
        }
        if m.entries.len() > 1 {
            ctx.probe("multi_entry");
        }
        if m.appended {
            ctx.probe("appended_archives_verified");
        }
        if m.entries.iter().any(|e| e.raw.is_some()) {
            ctx.probe("raw_copies_verified");
        }
        Verdict::Pass
    }

    fn shrink(&self, case: &Value) -> Vec<Value> {
        let c: RtCase = match serde_json::from_value(case.clone()) {
            Ok(c) => c,
            Err(_) => return vec![],
        };
        let mut out = vec![];
        if !matches!(c.sink, Policy::Pure) {
            out.push(RtCase { sink: Policy::Pure, ..c.clone() });
        }
        if !matches!(c.read, Policy::Pure) {
            out.push(RtCase { read: Policy::Pure, ..c.clone() });
        }
        if c.src_read.is_some() {
            out.push(RtCase { src_read: None, ..c.clone() });
        }
        if !c.bufs.is_empty() {
            out.push(RtCase { bufs: vec![], ..c.clone() });
        }
        if c.start_pos != 0 {
            out.push(RtCase { start_pos: 0, ..c.clone() });
        }
        if c.steer.is_some() {
            out.push(RtCase { steer: None, ..c.clone() });
        }
        for ops in shrink_ops(&c.ops) {
            if c.base.is_some() && !matches!(ops.first(), Some(Op::Append)) {
                continue;
            }
            out.push(RtCase { ops, ..c.clone() });
        }
        if !c.sources.is_empty() && !c.ops.iter().any(|o| matches!(o, Op::RawCopy { .. })) {
            out.push(RtCase { sources: vec![], ..c.clone() });
        }
        if let Some(Source::Built(l)) = &c.base {
            for l2 in shrink_layout(l) {
                out.push(RtCase { base: Some(Source::Built(l2)), ..c.clone() });
            }
        }
        for (si, s) in c.sources.iter().enumerate() {
            if let Source::Built(l) = s {
                for l2 in shrink_layout(l) {
                    // keep entry counts stable for raw-copy indices: only field simplifications
                    if l2.entries.len() == l.entries.len() {
                        let mut srcs = c.sources.clone();
                        srcs[si] = Source::Built(l2);
                        out.push(RtCase { sources: srcs, ..c.clone() });
                    }
                }
            }
        }
        out.into_iter().filter_map(|c| serde_json::to_value(c).ok()).collect()
    }
}

fn big_extra(r: &mut Rng) -> Vec<u8> {
    let n = r.pickc(&[65000usize, 65511, 65512, 65515, 65516, 65531, 65535, 65536, 70000]);
    let mut v = vec![];
    while v.len() + 4 < n {
        let k = (n - v.len() - 4).min(60000);
        v.extend_from_slice(&0xbeefu16.to_le_bytes());
        v.extend_from_slice(&(k as u16).to_le_bytes());
        v.extend_from_slice(&vec![3u8; k]);
    }
    v
}

/// the crate's own reading of a base archive (reference for C13)
fn base_view(st: &Shared) -> Result<(Vec<MEntry>, Vec<u8>, bool), String> {
    let mut ar = zip::ZipArchive::new(SimDisk::new(st.clone(), Policy::Pure)).map_err(|e| zerr_pub(&e))?;
    let comment = ar.comment().to_vec();
    let mut out = vec![];
    let mut dd = false;
    let p = {
        let g = st.lock().unwrap_or_else(|e| e.into_inner());
        crate::indep::parse(&*g).ok()
    };
    for i in 0..ar.len() {
        let enc = p.as_ref().and_then(|p| p.centrals.get(i)).map(|c| c.flags & 1 != 0).unwrap_or(false);
        if p.as_ref().and_then(|p| p.centrals.get(i)).map(|c| c.flags & 8 != 0).unwrap_or(false) {
            dd = true;
        }
        let mut f = ar.by_index_raw(i).map_err(|e| zerr_pub(&e))?;
        #[allow(deprecated)]
        let method = f.compression().to_u16();
        let lm = f.last_modified();
        let mut raw = Vec::new();
        use std::io::Read;
        f.read_to_end(&mut raw).map_err(|e| e.to_string())?;
        let plain = if enc { None } else { crate::indep::decode(method, &raw, f.size() as usize + 16).and_then(|r| r.ok()) };
        let e = MEntry {
            name: f.name().to_string(),
            kind: MKind::Base,
            method,
            dos: (lm.datepart(), lm.timepart()),
            mode: None,
            mode_perm_only: false,
            large: false,
            password: None,
            pieces: vec![],
            extra_local: vec![],
            extra_central: vec![],
            has_extra: false,
            align: None,
            raw: Some(RawExpect { raw, crc: f.crc32(), usize: f.size(), csize: f.compressed_size(), method, plain }),
            junk_after: 0,
            ret: 0,
            ret_data_start: None,
            opts_ok: true,
            base_mode: Some(f.unix_mode()),
            base_encrypted: enc,
        };
        out.push(e);
    }
    Ok((out, comment, dd))
}
