//! CPython `zipfile` (and Info-ZIP `unzip -t`) as an independent judge of the crate's output (C02,
//! C15) and as an independent producer of archives the crate must read and append to (C03, C13).
//! Batch mode: one Python process per run judges / produces a few dozen archives. The tools are
//! optional: if python3 is missing the run is skipped and counted (never a failure).

use super::common::*;
use crate::content::{crc32, Content, Hex};
use crate::model::{run_model, MKind, Model, ModelCfg};
use crate::ops::*;
use crate::rng::{fnv, mix, Rng};
use crate::runner::*;
use crate::simio::*;
use serde::{Deserialize, Serialize};
use serde_json::{json, Value};
use std::io::Write;
use std::process::Command;
use zip::{ZipArchive, ZipWriter};

#[derive(Serialize, Deserialize, Clone, Debug, PartialEq)]
pub struct PyCase {
    pub seed: u64,
    pub n: u32,
    /// minimisation: only this archive of the batch
    #[serde(default)]
    pub only: Option<u32>,
}

pub struct PyJudge;
pub struct PyProducer;

fn script() -> String {
    format!("{}/py/xcheck.py", verif_root_real())
}

fn batch_dir(tag: &str) -> std::path::PathBuf {
    static N: std::sync::atomic::AtomicU64 = std::sync::atomic::AtomicU64::new(0);
    let n = N.fetch_add(1, std::sync::atomic::Ordering::Relaxed);
    std::path::PathBuf::from(format!("{}/target/pyx/{tag}-w{}-b{}", verif_root(), std::process::id(), n))
}

fn run_python(mode: &str, dir: &std::path::Path) -> Result<Vec<(u32, bool, String)>, String> {
    let out = Command::new("python3").arg(script()).arg(mode).arg(dir).output().map_err(|e| format!("python3 not runnable: {e}"))?;
    if !out.status.success() && out.stdout.is_empty() {
        return Err(format!("xcheck.py failed: {}", String::from_utf8_lossy(&out.stderr).chars().take(300).collect::<String>()));
    }
    let mut v = vec![];
    for line in String::from_utf8_lossy(&out.stdout).lines() {
        if let Ok(j) = serde_json::from_str::<Value>(line) {
            v.push((j["i"].as_u64().unwrap_or(0) as u32, j["ok"].as_bool().unwrap_or(false), j["why"].as_str().unwrap_or("").to_string()));
        }
    }
    Ok(v)
}

fn date_time(dos: (u16, u16)) -> [u32; 6] {
    let (d, t) = (dos.0 as u32, dos.1 as u32);
    [(d >> 9) + 1980, (d >> 5) & 15, d & 31, t >> 11, (t >> 5) & 63, (t & 31) * 2]
}

fn py_name_ok(n: &str) -> bool {
    !n.is_empty() && !n.contains('\0')
}

fn judge_program(r: &mut Rng) -> Vec<Op> {
    let cfg = GenCfg {
        max_entries: 5,
        max_content: r.pickc(&[16u64, 300, 5000, 70_000]),
        methods: vec![0, 8, 12],
        extra: true,
        aligned: true,
        enc: true,
        n_sources: 0,
        src_lens: vec![],
        append: r.chance(1, 3),
        long_names: r.chance(1, 10),
        comment_max: 2000,
        misc_ops: true,
    };
    let mut ops = gen_program(r, &cfg);
    // names CPython rewrites on read (NUL truncation) or that are empty are outside this judge's subset
    for op in ops.iter_mut() {
        let mut renamed = false;
        match op {
            Op::StartFile { name, .. } | Op::StartExtra { name, .. } | Op::StartAligned { name, .. } | Op::AddDir { name, .. } | Op::AddSymlink { name, .. } => {
                if !py_name_ok(name) {
                    *name = format!("n{}", r.below(1000));
                    renamed = true;
                }
            }
            _ => {}
        }
        if renamed {
            // the name was replaced: the path-taking variant would still produce the old one
            if let Op::StartFile { o, .. } | Op::AddDir { o, .. } = op {
                o.via_path = None;
            }
        }
        // CPython cannot be given an empty password (b"" means "no password")
        if let Op::StartFile { o, .. } | Op::StartAligned { o, .. } | Op::StartExtra { o, .. } | Op::AddDir { o, .. } | Op::AddSymlink { o, .. } = op {
            if o.password.as_ref().map(|p| p.0.is_empty()).unwrap_or(false) {
                o.password = Some(Hex(b"nonempty".to_vec()));
            }
        }
    }
    if r.chance(1, 2) {
        ops.push(Op::Finish);
    }
    ops
}

impl Scenario for PyJudge {
    fn name(&self) -> &'static str {
        "pyjudge"
    }
    fn total(&self, tier: Tier) -> u64 {
        match tier {
            Tier::Quick => 64,
            Tier::Thorough => 4_000,
        }
    }
    fn rule(&self) -> &'static str {
        "one run = a batch of 40 generated writer programs (stored/deflate/bzip2; extra data, aligned, ZipCrypto, append rounds, long names and comments) executed on simulated disks; every archive the writer reported as successful is handed to CPython's zipfile in one batch process: testzip(), infolist() fields (name, method, date_time, size, CRC, mode, encryption flag), archive comment, and the decoded (and, with the password, decrypted) content of every entry must match the reference model; a quarter of the unencrypted archives also go through Info-ZIP `unzip -t`. One evaluation = one archive judged. Non-trivial = the archive has at least one non-empty entry; distinct = program hash"
    }
    fn gen(&self, seed: u64, idx: u64, _tier: Tier) -> Value {
        serde_json::to_value(PyCase { seed: mix(mix(seed, fnv(b"pyjudge")), idx), n: 40, only: None }).unwrap_or(Value::Null)
    }
    fn run(&self, case: &Value, ctx: &mut Ctx) -> Verdict {
        let c: PyCase = match serde_json::from_value(case.clone()) {
            Ok(c) => c,
            Err(e) => return Verdict::Harness(format!("bad case: {e}")),
        };
        let pfx = if ctx.property == "C15" { "C15" } else { "C02" };
        let dir = batch_dir("judge");
        let _ = std::fs::remove_dir_all(&dir);
        if std::fs::create_dir_all(&dir).is_err() {
            return Verdict::Harness("cannot create batch dir".into());
        }
        let mut progs: Vec<(u32, Vec<Op>)> = vec![];
        for i in 0..c.n {
            let mut r = Rng::new(mix(c.seed, i as u64));
            let ops = judge_program(&mut r);
            if c.only.map(|o| o != i).unwrap_or(false) {
                continue;
            }
            let store = shared_empty();
            let (out, _io) = match guard(|| super::prog::exec_on(store.clone(), false, &ops, &[], &Policy::Pure, 0, true)) {
                Ok(x) => x,
                Err(v) => {
                    let _ = std::fs::remove_dir_all(&dir);
                    return v;
                }
            };
            let mut m = Model::new(ModelCfg { enforce_unrepresentable: false, bzip2_level0_err: true });
            let lookup = |_: usize, _: usize, _: u8| None;
            if run_model(&mut m, &ops, &out.steps, &out.final_res, &lookup).is_err() || !m.complete || m.lenient || m.chaos {
                continue;
            }
            if out.lives.iter().any(|(app, end, len)| *app && end < len) {
                ctx.probe("append_left_stale_tail");
                continue;
            }
            if pfx == "C15" && !m.entries.iter().any(|e| e.password.is_some()) {
                continue;
            }
            let img = image_of(&store);
            if let Ok(p) = crate::indep::parse(&img) {
                if crate::indep::ambiguous(img.as_slice(), &p).is_some() {
                    ctx.probe("ambiguity_skipped");
                    continue;
                }
            }
            let encrypted = m.entries.iter().any(|e| e.password.is_some());
            let entries: Vec<Value> = m
                .entries
                .iter()
                .map(|e| {
                    let b = e.bytes();
                    json!({"name": e.name, "method": e.method, "date_time": date_time(e.dos), "size": b.len(), "crc": crc32(&b), "content_crc": crc32(&b),
                           "mode": e.mode, "password": e.password.as_ref().map(|p| Hex(p.clone())), "kind": format!("{:?}", e.kind)})
                })
                .collect();
            // Info-ZIP interprets the CONTENT of extra records whose IDs it knows (0x7441 AtheOS, OS/2, BeOS ...);
            // generated user extra data carries arbitrary IDs with arbitrary bodies, which says nothing about
            // the crate (false alarm under VERIF_SEED=3): those archives go to CPython only
            let user_extra = ops.iter().any(|op| matches!(op, Op::StartExtra { .. }));
            let exp = json!({"entries": entries, "comment": Hex(m.comment.clone()), "unzip": !encrypted && !user_extra && i % 4 == 0});
            let _ = std::fs::write(dir.join(format!("{i}.zip")), &img);
            let _ = std::fs::write(dir.join(format!("{i}.json")), exp.to_string());
            if m.entries.iter().any(|e| e.len() > 0 && e.kind != MKind::Dir) {
                ctx.sub_sigs.push(super::prog::prog_sig(&ops));
            }
            if encrypted {
                ctx.probe("archives_with_zipcrypto_entries_judged");
            }
            progs.push((i, ops));
        }
        let res = run_python("judge", &dir);
        let _ = std::fs::remove_dir_all(&dir);
        let lines = match res {
            Ok(l) => l,
            Err(e) => {
                ctx.probe("tool_missing");
                return Verdict::Skip(format!("CPython judge unavailable: {e}"));
            }
        };
        ctx.sub_evals += lines.len() as u64;
        ctx.probe_n("archives_judged_by_cpython", lines.len() as u64);
        if lines.len() != progs.len() {
            return Verdict::Harness(format!("judge answered {} of {} archives", lines.len(), progs.len()));
        }
        for (i, ok, why) in lines {
            if !ok {
                let ops = progs.iter().find(|(k, _)| *k == i).map(|(_, o)| o.clone()).unwrap_or_default();
                return viol(format!("{pfx}/cpython-disagrees"), format!("archive {i} of the batch: {why} || program: {}", serde_json::to_string(&ops).unwrap_or_default().chars().take(1500).collect::<String>()));
            }
        }
        Verdict::Pass
    }
    fn shrink(&self, case: &Value) -> Vec<Value> {
        let c: PyCase = match serde_json::from_value(case.clone()) {
            Ok(c) => c,
            Err(_) => return vec![],
        };
        if c.only.is_some() {
            return vec![];
        }
        (0..c.n).filter_map(|i| serde_json::to_value(PyCase { only: Some(i), ..c.clone() }).ok()).collect()
    }
}

// ---------------------------------------------------------------------------------------------

#[derive(Clone, Debug)]
struct Recipe {
    entries: Vec<REntry>,
    comment: Vec<u8>,
    prefix: Vec<u8>,
    unseekable: bool,
}
#[derive(Clone, Debug)]
struct REntry {
    name: String,
    method: u16,
    level: u32,
    dt: [u32; 6],
    eattr: u32,
    system: u8,
    comment: Vec<u8>,
    extra: Vec<u8>,
    content: Vec<u8>,
    force_zip64: bool,
}

fn gen_recipe(r: &mut Rng) -> Recipe {
    let n = r.weighted(&[(1, 0u64), (6, 1), (6, 2), (4, 4), (1, 12)]);
    let mc = r.pickc(&[16u64, 300, 5000, 60_000]);
    let mut entries = vec![];
    for i in 0..n {
        let name = match r.below(7) {
            0 => format!("f{i}"),
            1 => format!("dir{}/f{i}.txt", r.below(3)),
            2 => format!("ü{i}日本.bin"),
            3 => format!("d{i}/"),
            4 => format!("dup{}", r.below(2)),
            5 => format!("{}{i}", "long/".repeat(r.range(1, 40) as usize)),
            _ => format!("sp ace{i}"),
        };
        let is_dir = name.ends_with('/');
        let system = r.pickc(&[3u8, 3, 3, 0]);
        // (CPython replaces external_attr 0 by a default when writing: never ask for 0)
        let eattr = if system == 3 { ((if is_dir { 0o040000 } else { 0o100000 } | r.below(512) as u32) << 16) | if is_dir { 0x10 } else { 0 } } else { r.pickc(&[0x20u32, 0x20, 0x01, 0x10, 0x21]) };
        entries.push(REntry {
            name,
            method: r.pickc(&[0u16, 8, 8, 12]),
            level: r.range(1, 9) as u32,
            dt: [r.range(1980, 2107) as u32, r.range(1, 12) as u32, r.range(1, 28) as u32, r.range(0, 23) as u32, r.range(0, 59) as u32, (r.range(0, 29) * 2) as u32],
            eattr,
            system,
            comment: if r.chance(1, 5) { gen_comment(r, 12) } else { vec![] },
            extra: if r.chance(1, 4) { crate::indep::build::gen_extra(r, 2) } else { vec![] },
            content: if is_dir { vec![] } else { Content::gen(r, mc).bytes() },
            force_zip64: r.chance(1, 6),
        });
    }
    Recipe { entries, comment: if r.chance(1, 3) { gen_comment(r, 30) } else { vec![] }, prefix: if r.chance(1, 5) { vec![b'#'; r.range(1, 300) as usize] } else { vec![] }, unseekable: r.chance(1, 4) }
}

impl Scenario for PyProducer {
    fn name(&self) -> &'static str {
        "pyproducer"
    }
    fn total(&self, tier: Tier) -> u64 {
        match tier {
            Tier::Quick => 64,
            Tier::Thorough => 4_000,
        }
    }
    fn rule(&self) -> &'static str {
        "one run = a batch of 40 recipes turned into archives by CPython's zipfile in one batch process (stored/deflate/bzip2, any level, UTF-8 and ASCII names, duplicates, directories, DOS/Unix made-by with arbitrary attributes, file and archive comments, unknown extra records, force_zip64 entries, data descriptors via an unseekable output stream, prepended bytes); the crate reads each archive on a simulated disk under a short-read schedule and must report exactly the recipe (C03), then reopens it for append, adds an entry and must preserve every previous entry (C13). One evaluation = one archive. Non-trivial = at least one non-empty entry; distinct = recipe hash"
    }
    fn gen(&self, seed: u64, idx: u64, _tier: Tier) -> Value {
        serde_json::to_value(PyCase { seed: mix(mix(seed, fnv(b"pyproducer")), idx), n: 40, only: None }).unwrap_or(Value::Null)
    }
    fn run(&self, case: &Value, ctx: &mut Ctx) -> Verdict {
        let c: PyCase = match serde_json::from_value(case.clone()) {
            Ok(c) => c,
            Err(e) => return Verdict::Harness(format!("bad case: {e}")),
        };
        let c13 = ctx.property == "C13";
        let pfx = if c13 { "C13" } else { "C03" };
        let dir = batch_dir("produce");
        let _ = std::fs::remove_dir_all(&dir);
        if std::fs::create_dir_all(&dir).is_err() {
            return Verdict::Harness("cannot create batch dir".into());
        }
        let mut recs: Vec<(u32, Recipe, Rng)> = vec![];
        for i in 0..c.n {
            let mut r = Rng::new(mix(c.seed, i as u64));
            let rec = gen_recipe(&mut r);
            if c.only.map(|o| o != i).unwrap_or(false) {
                continue;
            }
            let entries: Vec<Value> = rec
                .entries
                .iter()
                .map(|e| json!({"name": e.name, "method": e.method, "level": if e.method == 0 { Value::Null } else { json!(e.level) }, "date_time": e.dt, "external_attr": e.eattr, "system": e.system,
                                "comment": Hex(e.comment.clone()), "extra": Hex(e.extra.clone()), "content": Hex(e.content.clone()), "force_zip64": e.force_zip64}))
                .collect();
            let j = json!({"entries": entries, "comment": Hex(rec.comment.clone()), "prefix": Hex(rec.prefix.clone()), "unseekable": rec.unseekable});
            let _ = std::fs::write(dir.join(format!("{i}.json")), j.to_string());
            recs.push((i, rec, r));
        }
        let res = run_python("produce", &dir);
        let lines = match res {
            Ok(l) => l,
            Err(e) => {
                let _ = std::fs::remove_dir_all(&dir);
                ctx.probe("tool_missing");
                return Verdict::Skip(format!("CPython producer unavailable: {e}"));
            }
        };
        let mut verdict = Verdict::Pass;
        'outer: for (i, ok, why) in lines {
            let (rec, mut r) = match recs.iter().find(|(k, _, _)| *k == i) {
                Some((_, rec, r)) => (rec.clone(), r.clone()),
                None => continue,
            };
            if !ok {
                ctx.probe("producer_refused_recipe");
                let _ = why;
                continue;
            }
            let img = match std::fs::read(dir.join(format!("{i}.zip"))) {
                Ok(b) => b,
                Err(_) => continue,
            };
            ctx.sub_evals += 1;
            let fail = |what: &str, detail: String| viol(format!("{pfx}/{what}"), format!("archive {i} of the batch: {detail} || recipe entries: {:?}", rec.entries.iter().map(|e| (e.name.clone(), e.method, e.content.len(), e.force_zip64)).collect::<Vec<_>>()));
            let store = shared_from(&img);
            let pol = gen_policy_short(&mut r);
            let bufs = gen_bufs(&mut r);
            let check = |store: &Shared, extra_entry: Option<(&str, &[u8])>, ctx: &mut Ctx| -> Result<(), Verdict> {
                let disk = SimDisk::new(store.clone(), pol.clone());
                let io = disk.io.clone();
                let mut ar = match guard(|| ZipArchive::new(disk))? {
                    Ok(a) => a,
                    Err(e) => return Err(fail("open-failed", format!("CPython-made archive rejected: {}", zerr_pub(&e)))),
                };
                let want = rec.entries.len() + extra_entry.is_some() as usize;
                if ar.len() != want {
                    return Err(fail("entry-count", format!("{} entries, expected {want}", ar.len())));
                }
                if ar.comment() != rec.comment.as_slice() {
                    return Err(fail("comment", "archive comment differs".into()));
                }
                for (k, e) in rec.entries.iter().enumerate() {
                    let mut f = match ar.by_index(k) {
                        Ok(f) => f,
                        Err(er) => return Err(fail("entry-open-failed", format!("entry {k}: {}", zerr_pub(&er)))),
                    };
                    let lm = f.last_modified();
                    let dt = [lm.year() as u32, lm.month() as u32, lm.day() as u32, lm.hour() as u32, lm.minute() as u32, lm.second() as u32];
                    #[allow(deprecated)]
                    let m = f.compression().to_u16();
                    if f.name() != e.name || m != e.method || dt != e.dt || f.size() != e.content.len() as u64 || f.crc32() != crc32(&e.content) {
                        return Err(fail("metadata", format!("entry {k}: name {:?} method {m} time {dt:?} size {} crc {:#x} vs recipe {:?} {} {:?} {} {:#x}", f.name(), f.size(), f.crc32(), e.name, e.method, e.dt, e.content.len(), crc32(&e.content))));
                    }
                    if extra_entry.is_none() {
                        if f.comment().as_bytes() != e.comment.as_slice() && e.comment.is_ascii() {
                            return Err(fail("file-comment", format!("entry {k}: comment differs")));
                        }
                        let mode_ok = match (e.system, e.eattr) {
                            (_, 0) => f.unix_mode().is_none(),
                            (3, a) => f.unix_mode() == Some(a >> 16),
                            (0, a) => {
                                let dir = a & 0x10 != 0;
                                let ro = a & 1 != 0;
                                let perm = if dir { 0o775 } else { 0o664 } & if ro { 0o555 } else { 0o777 };
                                f.unix_mode().map(|g| g & 0o777 == perm).unwrap_or(false)
                            }
                            _ => true,
                        };
                        if !mode_ok {
                            return Err(fail("unix-mode", format!("entry {k}: unix_mode {:?} for system {} attributes {:#x}", f.unix_mode(), e.system, e.eattr)));
                        }
                    }
                    let (data, err, _) = read_all(&mut f, &bufs, e.content.len() as u64 + 64);
                    if err.is_some() || data != e.content {
                        return Err(fail("content", format!("entry {k}: {} bytes read, {} in the recipe, error {:?}", data.len(), e.content.len(), err.map(|x| x.to_string()))));
                    }
                }
                if let Some((name, content)) = extra_entry {
                    let mut f = match ar.by_index(want - 1) {
                        Ok(f) => f,
                        Err(er) => return Err(fail("appended-entry", zerr_pub(&er))),
                    };
                    let (data, err, _) = read_all(&mut f, &bufs, 1 << 20);
                    if f.name() != name || err.is_some() || data != content {
                        return Err(fail("appended-entry", "the appended entry does not read back".into()));
                    }
                }
                ctx.absorb(&io);
                Ok(())
            };
            if let Err(v) = check(&store, None, ctx) {
                if !c13 {
                    verdict = v;
                    break 'outer;
                }
                continue; // not readable to begin with: C03's business
            }
            if rec.entries.iter().any(|e| !e.content.is_empty()) {
                ctx.sub_sigs.push(fnv(format!("{:?}", rec.entries.iter().map(|e| (e.method, e.content.len(), e.force_zip64, e.system)).collect::<Vec<_>>()).as_bytes()) ^ (rec.unseekable as u64) ^ ((rec.prefix.len() as u64) << 32));
            }
            if rec.unseekable {
                ctx.probe("data_descriptor_archives");
            }
            if c13 {
                // append one entry and finish
                let added = b"appended by the crate".to_vec();
                let sink = SimDisk::new(store.clone(), Policy::Pure);
                let io = sink.io.clone();
                let r = guard(|| -> Result<u64, String> {
                    let mut w = ZipWriter::new_append(sink).map_err(|e| zerr_pub(&e))?;
                    w.start_file("added/by/append", Opts::default().to_file_options()).map_err(|e| zerr_pub(&e))?;
                    w.write_all(&added).map_err(|e| e.to_string())?;
                    let s = w.finish().map_err(|e| zerr_pub(&e))?;
                    Ok(s.pos)
                });
                let end = match r {
                    Ok(Ok(p)) => p,
                    Ok(Err(e)) => {
                        verdict = fail("append-failed", e);
                        break 'outer;
                    }
                    Err(v) => {
                        verdict = v;
                        break 'outer;
                    }
                };
                ctx.absorb(&io);
                let stale = end < len_of(&store);
                if let Err(v) = check(&store, Some(("added/by/append", &added)), ctx) {
                    verdict = if stale {
                        match v {
                            Verdict::Violation { class, detail } => ctx.known_or_viol("D12", &class, format!("{detail} [archive shrank on append]")),
                            o => o,
                        }
                    } else {
                        v
                    };
                    if matches!(verdict, Verdict::Known { .. }) {
                        verdict = Verdict::Pass;
                        ctx.probe("d12_after_append_on_cpython_base");
                        continue;
                    }
                    break 'outer;
                }
                ctx.probe("append_on_cpython_base_verified");
            }
        }
        let _ = std::fs::remove_dir_all(&dir);
        verdict
    }
    fn shrink(&self, case: &Value) -> Vec<Value> {
        let c: PyCase = match serde_json::from_value(case.clone()) {
            Ok(c) => c,
            Err(_) => return vec![],
        };
        if c.only.is_some() {
            return vec![];
        }
        (0..c.n).filter_map(|i| serde_json::to_value(PyCase { only: Some(i), ..c.clone() }).ok()).collect()
    }
}
