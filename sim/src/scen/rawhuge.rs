//! Raw copies of ZIP64-sized entries (C14, and the limits of C08 / the validity of C02 reached through a raw
//! copy rather than through plain writes). The source archive is laid down by hand on the sparse disk - local
//! header with a ZIP64 record, a hole of `csize` bytes with marker bytes, central header with the ZIP64 values
//! the format requires, ZIP64 end record + locator, end record - so that compressed and uncompressed size can
//! both lie beyond 4 GiB AND differ (a raw copy never decodes, so the payload need not be a real stream).
//! The destination is written by the crate's writer and judged by the independent parser / validator (sizes,
//! CRC, method, time words in both headers, ZIP64 records and their order, extents tiling the file) plus the
//! crate's own reader (metadata, raw bytes, neighbours).

use super::common::*;
use crate::content::Content;
use crate::indep;
use crate::ops::*;
use crate::rng::{fnv, mix, Rng};
use crate::runner::*;
use crate::simio::*;
use serde::{Deserialize, Serialize};
use serde_json::Value;
use std::io::{Read, Write};
use zip::write::FileOptions;
use zip::{CompressionMethod, ZipArchive, ZipWriter};

const G4: u64 = 1 << 32;

#[derive(Serialize, Deserialize, Clone, Debug, PartialEq)]
pub struct SEntry {
    pub name: String,
    pub method: u16,
    pub usize: u64,
    pub csize: u64,
    pub crc: u32,
    pub dos: (u16, u16),
    pub mode: u32,
    pub seed: u64,
}

#[derive(Serialize, Deserialize, Clone, Debug, PartialEq)]
pub struct RawHugeCase {
    pub src: Vec<SEntry>,
    /// which source entry is copied
    pub pick: usize,
    /// 0 by_index_raw, 1 by_index, 2 by_name
    pub how: u8,
    pub rename: Option<String>,
    pub before: bool,
    pub after: bool,
    /// a second copy of the same entry right behind the first
    pub twice: bool,
    pub start_pos: u64,
    pub src_policy: Policy,
}

pub struct RawHuge;

fn put16(v: &mut Vec<u8>, x: u16) {
    v.extend_from_slice(&x.to_le_bytes());
}
fn put32(v: &mut Vec<u8>, x: u32) {
    v.extend_from_slice(&x.to_le_bytes());
}
fn put64(v: &mut Vec<u8>, x: u64) {
    v.extend_from_slice(&x.to_le_bytes());
}

/// marker windows of a sparse payload: every 64 MiB and the tail
fn windows(len: u64) -> Vec<(u64, usize)> {
    let mut w = vec![];
    let mut m = 0u64;
    while m < len {
        w.push((m, (len - m).min(8) as usize));
        m += 1 << 26;
    }
    if len > 8 {
        w.push((len - 8, 8));
    }
    w
}

/// Lay the source archive down on a sparse store; returns (store, data start of every entry)
fn sparse_source(es: &[SEntry]) -> (Shared, Vec<u64>) {
    let st = shared_empty();
    let mut pos = 0u64;
    let mut starts = vec![];
    let mut offs = vec![];
    {
        let mut g = st.lock().unwrap_or_else(|e| e.into_inner());
        for e in es {
            offs.push(pos);
            let big = e.usize >= 0xFFFF_FFFF || e.csize >= 0xFFFF_FFFF;
            let mut h = vec![];
            put32(&mut h, indep::SIG_LOCAL);
            put16(&mut h, if big { 45 } else { 20 });
            put16(&mut h, if e.name.is_ascii() { 0 } else { 1 << 11 });
            put16(&mut h, e.method);
            put16(&mut h, e.dos.1);
            put16(&mut h, e.dos.0);
            put32(&mut h, e.crc);
            put32(&mut h, if big { 0xFFFF_FFFF } else { e.csize as u32 });
            put32(&mut h, if big { 0xFFFF_FFFF } else { e.usize as u32 });
            put16(&mut h, e.name.len() as u16);
            put16(&mut h, if big { 20 } else { 0 });
            h.extend_from_slice(e.name.as_bytes());
            if big {
                put16(&mut h, 1);
                put16(&mut h, 16);
                put64(&mut h, e.usize);
                put64(&mut h, e.csize);
            }
            g.write_at(pos, &h);
            pos += h.len() as u64;
            starts.push(pos);
            let c = Content::Sparse { len: e.csize, seed: e.seed };
            for (off, n) in windows(e.csize) {
                let mut b = vec![0u8; n];
                c.fill(off, &mut b);
                g.write_at(pos + off, &b);
            }
            pos += e.csize;
        }
        let cd_start = pos;
        for (e, off) in es.iter().zip(offs.iter()) {
            let mut z = vec![];
            if e.usize >= 0xFFFF_FFFF {
                put64(&mut z, e.usize);
            }
            if e.csize >= 0xFFFF_FFFF {
                put64(&mut z, e.csize);
            }
            if *off >= 0xFFFF_FFFF {
                put64(&mut z, *off);
            }
            let mut h = vec![];
            put32(&mut h, indep::SIG_CENTRAL);
            put16(&mut h, (3 << 8) | 45);
            put16(&mut h, if z.is_empty() { 20 } else { 45 });
            put16(&mut h, if e.name.is_ascii() { 0 } else { 1 << 11 });
            put16(&mut h, e.method);
            put16(&mut h, e.dos.1);
            put16(&mut h, e.dos.0);
            put32(&mut h, e.crc);
            put32(&mut h, e.csize.min(0xFFFF_FFFF) as u32);
            put32(&mut h, e.usize.min(0xFFFF_FFFF) as u32);
            put16(&mut h, e.name.len() as u16);
            put16(&mut h, if z.is_empty() { 0 } else { 4 + z.len() as u16 });
            put16(&mut h, 0);
            put16(&mut h, 0);
            put16(&mut h, 0);
            put32(&mut h, e.mode << 16);
            put32(&mut h, (*off).min(0xFFFF_FFFF) as u32);
            h.extend_from_slice(e.name.as_bytes());
            if !z.is_empty() {
                put16(&mut h, 1);
                put16(&mut h, z.len() as u16);
                h.extend_from_slice(&z);
            }
            g.write_at(pos, &h);
            pos += h.len() as u64;
        }
        let cd_size = pos - cd_start;
        let mut t = vec![];
        if cd_start > 0xFFFF_FFFF || cd_size > 0xFFFF_FFFF {
            put32(&mut t, indep::SIG_Z64_EOCD);
            put64(&mut t, 44);
            put16(&mut t, 45);
            put16(&mut t, 45);
            put32(&mut t, 0);
            put32(&mut t, 0);
            put64(&mut t, es.len() as u64);
            put64(&mut t, es.len() as u64);
            put64(&mut t, cd_size);
            put64(&mut t, cd_start);
            put32(&mut t, indep::SIG_Z64_LOC);
            put32(&mut t, 0);
            put64(&mut t, pos);
            put32(&mut t, 1);
        }
        put32(&mut t, indep::SIG_EOCD);
        put16(&mut t, 0);
        put16(&mut t, 0);
        put16(&mut t, es.len() as u16);
        put16(&mut t, es.len() as u16);
        put32(&mut t, cd_size.min(0xFFFF_FFFF) as u32);
        put32(&mut t, cd_start.min(0xFFFF_FFFF) as u32);
        put16(&mut t, 0);
        g.write_at(pos, &t);
    }
    (st, starts)
}

/// (length, position-weighted fold of the non-zero bytes) of everything a reader delivers
fn fold<R: Read>(f: &mut R, tick: &mut dyn FnMut()) -> Result<(u64, u64), String> {
    let mut buf = vec![0u8; 1 << 20];
    let mut n = 0u64;
    let mut acc = 0u64;
    loop {
        match f.read(&mut buf) {
            Ok(0) => return Ok((n, acc)),
            Ok(k) => {
                if buf[..k].iter().any(|b| *b != 0) {
                    for (i, b) in buf[..k].iter().enumerate() {
                        if *b != 0 {
                            acc = mix(acc, (n + i as u64) ^ ((*b as u64) << 56));
                        }
                    }
                }
                n += k as u64;
                if n % (1 << 28) < k as u64 {
                    tick();
                }
            }
            Err(e) if e.kind() == std::io::ErrorKind::Interrupted => {}
            Err(e) => return Err(e.to_string()),
        }
    }
}

impl Scenario for RawHuge {
    fn name(&self) -> &'static str {
        "rawcopy_huge"
    }
    fn total(&self, tier: Tier) -> u64 {
        match tier {
            Tier::Quick => 16,
            Tier::Thorough => 160,
        }
    }
    fn rule(&self) -> &'static str {
        "one case = a source archive laid down by hand on the sparse disk whose picked entry has sizes on or beyond the 32-bit limit (compressed and uncompressed size both beyond 4 GiB and different, only one of them beyond, exactly 0xFFFFFFFF, ...), raw-copied (by_index_raw / by_index / by_name, optionally renamed, optionally twice) between optional ordinary entries into a writer positioned at 0 or around 4 GiB; the destination is judged by the independent validator (ZIP64 records, their order, local/central agreement, extents) and by the crate's reader (metadata, raw bytes at the marker windows and in total, neighbours). Non-trivial = the copy and finish() succeeded; distinct = case hash"
    }
    fn gen(&self, seed: u64, idx: u64, _tier: Tier) -> Value {
        let s = mix(mix(seed, fnv(b"rawcopy_huge")), idx);
        let mut r = Rng::derive(s, "workload");
        let (method, usz, csz) = match idx % 8 {
            0 => (8u16, G4 + 5000 + r.below(100), G4 + 100 + r.below(50)),
            1 => (93, G4 + 100 + r.below(50), G4 + 70_000 + r.below(100)),
            2 => (0, G4 - 1, G4 - 1),
            3 => (0, G4 + r.below(3), 0),
            4 => (8, 100 + r.below(100), G4 + 3 + r.below(10)),
            5 => (12, G4 + 7 + r.below(10), 200 + r.below(100)),
            6 => (r.pickc(&[14u16, 95, 98]), G4 - 1 - r.below(2), G4 - r.below(3)),
            _ => (8, G4 - 2 + r.below(5), G4 - 2 + r.below(5)),
        };
        let csz = if method == 0 { usz } else { csz };
        let small = |r: &mut Rng, name: &str| SEntry { name: name.into(), method: 0, usize: 0, csize: 0, crc: 0, dos: (33, 0), mode: 0o100644, seed: r.below(100) };
        let mut src = vec![];
        if r.chance(1, 2) {
            let mut e = small(&mut r, "first-in-source");
            let n = r.below(300);
            e.usize = n;
            e.csize = n;
            src.push(e);
        }
        let pick = src.len();
        src.push(SEntry { name: if r.chance(1, 4) { "größe/big.bin".into() } else { "big.bin".into() }, method, usize: usz, csize: csz, crc: r.next_u64() as u32, dos: (r.range(33, 0xff9f) as u16, r.below(0xbf7d) as u16), mode: 0o100000 | r.below(0o1000) as u32, seed: r.below(1000) });
        if r.chance(1, 2) {
            src.push(small(&mut r, "last-in-source"));
        }
        // a method the crate cannot decode can only be obtained raw (by_index / by_name refuse it, as C03 says)
        let how = if method == 0 && r.chance(1, 2) {
            1
        } else if !matches!(method, 0 | 8 | 12 | 93) {
            0
        } else {
            r.pickc(&[0u8, 0, 2])
        };
        let case = RawHugeCase {
            src,
            pick,
            how,
            rename: if r.chance(1, 3) { Some("renamed.bin".into()) } else { None },
            before: r.chance(1, 2),
            after: r.chance(1, 2),
            twice: r.chance(1, 5),
            start_pos: match r.below(4) {
                0 => G4 - 1 - r.below(60),
                1 => G4 + r.below(5000),
                _ => 0,
            },
            src_policy: if r.chance(1, 2) { Policy::Pure } else { Policy::BufLike { cap: 1 << 16 } },
        };
        serde_json::to_value(case).unwrap_or(Value::Null)
    }
    fn run(&self, case: &Value, ctx: &mut Ctx) -> Verdict {
        let c: RawHugeCase = match serde_json::from_value(case.clone()) {
            Ok(c) => c,
            Err(e) => return Verdict::Harness(format!("bad case: {e}")),
        };
        let p = ctx.property.clone();
        let (src, starts) = sparse_source(&c.src);
        let se = &c.src[c.pick];
        // the harness's own source must be a valid archive by its own judge
        {
            let g = src.lock().unwrap_or_else(|e| e.into_inner());
            match indep::parse(&*g) {
                Ok(ps) => {
                    let no = |_: usize| None;
                    let all = |_: usize| true;
                    let none = |_: usize| false;
                    let bad = indep::validate(&*g, &ps, &indep::ValidateOpts { passwords: &no, allow_gaps: false, decode_limit: 0, skip_decode: &all, relax_entry: &none });
                    if !bad.is_empty() {
                        return Verdict::Harness(format!("hand-built source does not validate: {}", bad.join("; ")));
                    }
                }
                Err(e) => return Verdict::Harness(format!("hand-built source does not parse: {e}")),
            }
        }
        let src_disk = SimDisk::new(src.clone(), c.src_policy.clone());
        set_budget(&src_disk.io, u64::MAX);
        let mut ar = match guard(|| ZipArchive::new(src_disk)) {
            Ok(Ok(a)) => a,
            Ok(Err(e)) => return Verdict::Skip(format!("the reader rejects the source archive: {}", zerr_pub(&e))),
            Err(v) => return v,
        };
        let dst = shared_empty();
        let sink = SimDisk::new(dst.clone(), Policy::Pure).at(c.start_pos);
        set_budget(&sink.io, u64::MAX);
        let opts = FileOptions::default().compression_method(CompressionMethod::Stored).last_modified_time(zip::DateTime::default());
        let new_name = c.rename.clone().unwrap_or_else(|| se.name.clone());
        let res: Result<Result<(), String>, Verdict> = guard(|| {
            let mut w = ZipWriter::new(sink);
            if c.before {
                w.start_file("before", opts).map_err(|e| zerr_pub(&e))?;
                w.write_all(b"bytes before the copy").map_err(|e| e.to_string())?;
            }
            for round in 0..if c.twice { 2 } else { 1 } {
                let f = match c.how {
                    1 => ar.by_index(c.pick),
                    2 => ar.by_name(&se.name),
                    _ => ar.by_index_raw(c.pick),
                }
                .map_err(|e| format!("source entry: {}", zerr_pub(&e)))?;
                let r = if round == 1 {
                    w.raw_copy_file_rename(f, format!("{new_name}.again"))
                } else if c.rename.is_some() {
                    w.raw_copy_file_rename(f, new_name.clone())
                } else {
                    w.raw_copy_file(f)
                };
                r.map_err(|e| format!("raw copy: {}", zerr_pub(&e)))?;
            }
            if c.after {
                w.start_file("after", opts).map_err(|e| zerr_pub(&e))?;
                w.write_all(b"bytes after the copy").map_err(|e| e.to_string())?;
            }
            w.finish().map_err(|e| format!("finish: {}", zerr_pub(&e)))?;
            Ok(())
        });
        ctx.tick();
        match res {
            Err(v) => return v,
            Ok(Err(e)) => return viol(format!("{p}/huge-raw-copy-failed"), format!("copying a valid entry of {} / {} bytes (method {}) failed: {e}", se.usize, se.csize, se.method)),
            Ok(Ok(())) => {}
        }
        // ---- independent judge
        let n_copies = if c.twice { 2 } else { 1 };
        let first = c.before as usize;
        let parsed = {
            let g = dst.lock().unwrap_or_else(|e| e.into_inner());
            let ps = match indep::parse(&*g) {
                Ok(ps) => ps,
                Err(e) => return viol("C02/unparseable", format!("destination does not parse: {e}")),
            };
            let no = |_: usize| None;
            let skip = |i: usize| i >= first && i < first + n_copies;
            let none = |_: usize| false;
            let bad = indep::validate(&*g, &ps, &indep::ValidateOpts { passwords: &no, allow_gaps: false, decode_limit: 1 << 20, skip_decode: &skip, relax_entry: &none });
            if !bad.is_empty() {
                return viol("C02/invalid", format!("{} problem(s): {}", bad.len(), bad.join("; ")));
            }
            let want_n = first + n_copies + c.after as usize;
            if ps.centrals.len() != want_n {
                return viol(format!("{p}/entry-count"), format!("{} entries in the destination, {want_n} were added", ps.centrals.len()));
            }
            for k in 0..n_copies {
                let cd = &ps.centrals[first + k];
                let want_name = if k == 1 { format!("{new_name}.again") } else { new_name.clone() };
                if cd.name != want_name.as_bytes() {
                    return viol("C14/raw-metadata", format!("copy {k}: name {:?}, expected {want_name:?}", String::from_utf8_lossy(&cd.name)));
                }
                if (cd.method, cd.crc, cd.usize, cd.csize, cd.date, cd.time) != (se.method, se.crc, se.usize, se.csize, se.dos.0, se.dos.1) {
                    return viol("C14/raw-metadata", format!("copy {k}: central header says method {} crc {:08x} sizes {}/{} time {:#x},{:#x}; the source entry has method {} crc {:08x} sizes {}/{} time {:#x},{:#x}", cd.method, cd.crc, cd.usize, cd.csize, cd.date, cd.time, se.method, se.crc, se.usize, se.csize, se.dos.0, se.dos.1));
                }
                if (cd.eattr >> 16) & 0o777 != se.mode & 0o777 {
                    return viol("C14/raw-metadata", format!("copy {k}: permission bits {:o}, the source has {:o}", (cd.eattr >> 16) & 0o777, se.mode & 0o777));
                }
                let l = match ps.locals.get(first + k) {
                    Some(Ok(l)) => l,
                    _ => return viol("C02/invalid", format!("copy {k}: no local header")),
                };
                if (l.usize, l.csize, l.crc, l.method) != (se.usize, se.csize, se.crc, se.method) {
                    return viol("C14/raw-metadata", format!("copy {k}: local header says method {} crc {:08x} sizes {}/{}", l.method, l.crc, l.usize, l.csize));
                }
                // the bytes: every marker window of the payload
                let sg = src.lock().unwrap_or_else(|e| e.into_inner());
                for (off, n) in windows(se.csize) {
                    use crate::indep::Src;
                    if g.fetch(l.data_start + off, n) != sg.fetch(starts[c.pick] + off, n) {
                        return viol("C14/raw-bytes", format!("copy {k}: bytes at offset {off} of the payload differ from the source's"));
                    }
                }
            }
            ps
        };
        let _ = parsed;
        ctx.tick();
        // ---- the crate's reader on the destination
        let dst_disk = SimDisk::new(dst.clone(), Policy::Pure);
        set_budget(&dst_disk.io, u64::MAX);
        let mut out = match guard(|| ZipArchive::new(dst_disk)) {
            Ok(Ok(a)) => a,
            Ok(Err(e)) => return viol(format!("{p}/open-failed"), format!("the destination does not open: {}", zerr_pub(&e))),
            Err(v) => return v,
        };
        let want_src = {
            let mut f = match ar.by_index_raw(c.pick) {
                Ok(f) => f,
                Err(e) => return Verdict::Harness(format!("source raw reopen: {}", zerr_pub(&e))),
            };
            match fold(&mut f, &mut || {}) {
                Ok(x) => x,
                Err(e) => return Verdict::Harness(format!("source raw read: {e}")),
            }
        };
        ctx.tick();
        for k in 0..n_copies {
            let got = guard(|| -> Result<((u64, u64), (u64, u64, u32, u16, Option<u32>, (u16, u16))), String> {
                let mut f = out.by_index_raw(first + k).map_err(|e| zerr_pub(&e))?;
                #[allow(deprecated)]
                let meta = (f.size(), f.compressed_size(), f.crc32(), f.compression().to_u16(), f.unix_mode().map(|m| m & 0o777), (f.last_modified().datepart(), f.last_modified().timepart()));
                let x = fold(&mut f, &mut || {})?;
                Ok((x, meta))
            });
            ctx.tick();
            match got {
                Err(v) => return v,
                Ok(Err(e)) => return viol(format!("{p}/entry-open-failed"), format!("copy {k} cannot be read back raw: {e}")),
                Ok(Ok((x, meta))) => {
                    let want_meta = (se.usize, se.csize, se.crc, se.method, Some(se.mode & 0o777), se.dos);
                    let mode_ok = meta.4 == want_meta.4 || (meta.4.is_none() && se.mode & 0o777 == 0);
                    if (meta.0, meta.1, meta.2, meta.3, meta.5) != (want_meta.0, want_meta.1, want_meta.2, want_meta.3, want_meta.5) || !mode_ok {
                        return viol("C14/raw-metadata", format!("copy {k} through the crate's reader: {meta:?}, the source has {want_meta:?}"));
                    }
                    if x != want_src {
                        return viol("C14/raw-bytes", format!("copy {k}: {} raw bytes (fold {:x}), the source delivers {} (fold {:x})", x.0, x.1, want_src.0, want_src.1));
                    }
                }
            }
        }
        for (on, idx, want) in [(c.before, 0usize, &b"bytes before the copy"[..]), (c.after, first + n_copies, &b"bytes after the copy"[..])] {
            if on {
                let r = guard(|| -> Result<Vec<u8>, String> {
                    let mut f = out.by_index(idx).map_err(|e| zerr_pub(&e))?;
                    let mut v = vec![];
                    f.read_to_end(&mut v).map_err(|e| e.to_string())?;
                    Ok(v)
                });
                match r {
                    Err(v) => return v,
                    Ok(Err(e)) => return viol(format!("{p}/neighbour"), format!("the ordinary entry at {idx} cannot be read: {e}")),
                    Ok(Ok(v)) if v != want => return viol(format!("{p}/neighbour"), format!("the ordinary entry at {idx} reads {} bytes, {} were written", v.len(), want.len())),
                    _ => {}
                }
            }
        }
        ctx.probe("huge_raw_copy_verified");
        if se.usize > 0xFFFF_FFFF && se.csize > 0xFFFF_FFFF && se.usize != se.csize {
            ctx.probe("both_sizes_beyond_4gib_and_different");
        }
        if c.start_pos + 100 >= G4 {
            ctx.probe("destination_around_or_beyond_4gib");
        }
        ctx.sig = Some(fnv(case.to_string().as_bytes()));
        Verdict::Pass
    }
    fn shrink(&self, case: &Value) -> Vec<Value> {
        let c: RawHugeCase = match serde_json::from_value(case.clone()) {
            Ok(c) => c,
            Err(_) => return vec![],
        };
        let mut out = vec![];
        if c.twice {
            out.push(RawHugeCase { twice: false, ..c.clone() });
        }
        if c.before {
            out.push(RawHugeCase { before: false, ..c.clone() });
        }
        if c.after {
            out.push(RawHugeCase { after: false, ..c.clone() });
        }
        if c.rename.is_some() {
            out.push(RawHugeCase { rename: None, ..c.clone() });
        }
        if c.start_pos != 0 {
            out.push(RawHugeCase { start_pos: 0, ..c.clone() });
        }
        if !matches!(c.src_policy, Policy::Pure) {
            out.push(RawHugeCase { src_policy: Policy::Pure, ..c.clone() });
        }
        if c.src.len() > 1 {
            let keep = c.src[c.pick].clone();
            out.push(RawHugeCase { src: vec![keep], pick: 0, ..c.clone() });
        }
        out.into_iter().filter_map(|c| serde_json::to_value(c).ok()).collect()
    }
}

