//! C01 / C02: generated writer programs on a SimDisk, finished or dropped, read back through the
//! crate's reader (model equality) and judged by the independent parser.

use super::common::*;
use crate::model::{run_model, Model, ModelCfg};
use crate::ops::*;
use crate::rng::{fnv, mix, Rng};
use crate::runner::*;
use crate::simio::*;
use crate::verify::*;
use serde::{Deserialize, Serialize};
use serde_json::Value;

#[derive(Serialize, Deserialize, Clone, Debug, PartialEq)]
pub struct RtCase {
    pub ops: Vec<Op>,
    pub sources: Vec<Source>,
    pub sink: Policy,
    pub read: Policy,
    pub bufs: Vec<u32>,
    pub start_pos: u64,
}

pub struct Roundtrip {
    /// false: C01 alphabet; true: C02 alphabet (extra data, aligned, encrypted, raw copy, append, over-long fields)
    pub full: bool,
}

pub fn exec(ops: &[Op], sources: &[Shared], sink: &Policy, start_pos: u64, final_finish: bool, stop_on_err: bool) -> (Shared, ExecOut, IoH) {
    let store = shared_empty();
    let sink_io = ioh(sink.clone());
    let env = ExecEnv { store: store.clone(), start_pos, sink_io: sink_io.clone(), sources: sources.to_vec(), src_io: ioh(Policy::Pure), stop_on_err, final_finish };
    let out = run_program(ops, &env);
    (store, out, sink_io)
}

pub fn prog_sig(ops: &[Op]) -> u64 {
    let mut h = 0xABCDu64;
    for op in ops {
        h = mix(h, fnv(op.kind().as_bytes()));
        match op {
            Op::StartFile { o, name } | Op::StartExtra { o, name } | Op::StartAligned { o, name, .. } | Op::AddDir { o, name } | Op::AddSymlink { o, name, .. } => {
                h = mix(h, o.method as u64 + ((o.large as u64) << 20) + ((o.password.is_some() as u64) << 21) + ((name.len().min(300) as u64) << 24));
                h = mix(h, o.level.map(|l| (l + 100) as u64).unwrap_or(0));
            }
            Op::Write { c, split } => {
                h = mix(h, c.len().min(1 << 20) + ((split.len().min(7) as u64) << 40));
            }
            _ => {}
        }
    }
    h
}

impl Roundtrip {
    fn to_prop(&self, class: &str, prop: &str) -> String {
        // model mismatches are reported under the property being checked
        if let Some(rest) = class.strip_prefix("model/") {
            if rest == "expected-err-got-ok" {
                format!("{prop}/unrepresentable-or-misuse-accepted")
            } else {
                format!("{prop}/valid-call-failed")
            }
        } else {
            class.to_string()
        }
    }
}

impl Scenario for Roundtrip {
    fn name(&self) -> &'static str {
        if self.full {
            "roundtrip_full"
        } else {
            "roundtrip"
        }
    }
    fn total(&self, tier: Tier) -> u64 {
        match (tier, self.full) {
            (Tier::Quick, false) => 40_000,
            (Tier::Quick, true) => 30_000,
            (Tier::Thorough, false) => 1_500_000,
            (Tier::Thorough, true) => 1_000_000,
        }
    }
    fn rule(&self) -> &'static str {
        "one case = one generated writer program (entry kinds, methods, levels, names, times, modes, comments, caller write splits) + sink short-write schedule + read-back short-read schedule + caller buffer sizes; executed twice (finish / drop). Non-trivial = the archive completed and at least one entry with non-empty content was read back and compared; distinct = hash of (op kinds, methods, levels, flags, name/content length classes) mixed with the I/O schedule digest"
    }
    fn gen(&self, seed: u64, idx: u64, tier: Tier) -> Value {
        let s = mix(mix(seed, fnv(self.name().as_bytes())), idx);
        let mut r = Rng::derive(s, "workload");
        let mut rs = Rng::derive(s, "swarm");
        let mut rio = Rng::derive(s, "io");
        let big = tier == Tier::Thorough && rs.chance(1, 400);
        let max_content = *rs.pick(&[16u64, 16, 300, 300, 4096, 4096, 70_000, if big { 8 << 20 } else { 300_000 }]);
        let nm = rs.range(1, 4) as usize;
        let mut methods = METHODS.to_vec();
        for i in 0..4 {
            let j = rs.usize_below(4);
            methods.swap(i, j);
        }
        methods.truncate(nm);
        let mut sources = vec![];
        if self.full && rs.chance(1, 2) {
            for _ in 0..rs.range(1, 2) {
                let mut s = gen_source(&mut r);
                if let Source::Built(l) = &mut s {
                    l.trailing = 0;
                    for e in l.entries.iter_mut() {
                        e.enc = None;
                    }
                }
                sources.push(s);
            }
        }
        let src_lens: Vec<usize> = sources.iter().map(|s| source_entries(&s.image()).len()).collect();
        let cfg = GenCfg {
            max_entries: if rs.chance(1, 20) { 40 } else { 8 },
            max_content,
            methods,
            extra: self.full,
            aligned: self.full,
            enc: self.full,
            n_sources: sources.len(),
            src_lens,
            append: self.full,
            long_names: rs.chance(1, 6),
            comment_max: 65535,
            misc_ops: true,
        };
        let mut ops = gen_program(&mut r, &cfg);
        if self.full && rs.chance(1, 12) {
            // one unrepresentable input somewhere
            let which = r.below(3);
            let n = r.pickc(&[65536usize, 65537, 65541, 70000, 131072]);
            let pos = r.usize_below(ops.len() + 1);
            match which {
                0 => {
                    ops.insert(pos, Op::StartFile { name: "n".repeat(n), o: Opts::default() });
                }
                1 => ops.push(Op::SetComment { c: crate::content::Hex(vec![b'c'; n]) }),
                _ => {
                    let mut ex = vec![];
                    while ex.len() < n {
                        ex.extend_from_slice(&0xbeefu16.to_le_bytes());
                        ex.extend_from_slice(&60000u16.to_le_bytes());
                        ex.extend_from_slice(&vec![0u8; 60000]);
                    }
                    ops.push(Op::StartExtra { name: "x".into(), o: Opts::default() });
                    ops.push(Op::Write { c: crate::content::Content::Lit(crate::content::Hex(ex)), split: vec![] });
                    ops.push(Op::EndExtra);
                }
            }
        }
        if r.chance(1, 2) {
            ops.push(Op::Finish);
        }
        let case = RtCase { ops, sources, sink: gen_policy_short(&mut rio), read: gen_policy_short(&mut rio), bufs: gen_bufs(&mut rio), start_pos: if rs.chance(1, 10) { rs.below(5000) } else { 0 } };
        serde_json::to_value(case).unwrap_or(Value::Null)
    }
    fn run(&self, case: &Value, ctx: &mut Ctx) -> Verdict {
        let c: RtCase = match serde_json::from_value(case.clone()) {
            Ok(c) => c,
            Err(e) => return Verdict::Harness(format!("bad case: {e}")),
        };
        let prop = ctx.property.clone();
        let (src_stores, src_infos, _) = sources_to_stores(&c.sources);
        // run 1: finish; run 2: drop
        let (store_f, out_f, io_f) = exec(&c.ops, &src_stores, &c.sink, c.start_pos, true, false);
        let (store_d, _out_d, io_d) = exec(&c.ops, &src_stores, &c.sink, c.start_pos, false, false);
        ctx.absorb(&io_f);
        ctx.absorb(&io_d);
        let mut m = Model::new(ModelCfg { enforce_unrepresentable: true, bzip2_level0_err: true });
        let lookup = |si: usize, idx: usize, how: u8| resolve_src(&src_infos, si, idx, how);
        if let Err(mmis) = run_model(&mut m, &c.ops, &out_f.steps, &out_f.final_res, &lookup) {
            let class = self.to_prop(&mmis.class, &prop);
            // a wrongly accepted unrepresentable input is a C02 matter; a failing valid call is both
            if class.contains("accepted") && prop != "C02" {
                ctx.probe("other_property:C02");
                return Verdict::Skip("unrepresentable input accepted (C02's business)".into());
            }
            return viol(class, mmis.detail);
        }
        if m.chaos {
            return Verdict::Skip("append after an incomplete archive".into());
        }
        if !m.complete {
            ctx.probe("archive_not_expected_complete");
            return Verdict::Pass;
        }
        let img_f_len = len_of(&store_f);
        if img_f_len < (256 << 20) {
            let a = image_of(&store_f);
            let b = image_of(&store_d);
            if a != b {
                if prop == "C01" {
                    return viol("C01/finish-drop-differ", format!("finish() image has {} bytes, drop image {} bytes", a.len(), b.len()));
                }
                ctx.probe("other_property:C01");
            }
        }
        // bytes surviving after the new end record (an append that made the archive shorter; the sink
        // cannot be truncated): known finding D12, C13's business
        let stale_tail = m.appended && out_f.end_pos.map(|e| e < img_f_len).unwrap_or(false);
        if stale_tail {
            ctx.probe("append_left_stale_tail");
            if prop != "C13" {
                return Verdict::Skip("append left bytes after the end record (C13 / D12)".into());
            }
        }
        // independent judge
        let indep_res = {
            let g = store_f.lock().unwrap_or_else(|e| e.into_inner());
            check_indep(&*g, &m, m.appended, ctx)
        };
        match indep_res {
            Ok(IndepOutcome::Ambiguous(why)) => {
                ctx.probe("ambiguity_skipped");
                return Verdict::Skip(format!("format-inherent ambiguity: {why}"));
            }
            Ok(IndepOutcome::Ok(_)) => {}
            Err(e) => {
                let owner = &e.class[..3];
                if owner == prop || (prop == "C02" && (owner == "C14" || owner == "C17")) {
                    return viol(e.class, e.detail);
                }
                ctx.probe(&format!("other_property:{owner}"));
                if prop == "C01" {
                    // keep going: C01 judges through the crate's reader only
                } else {
                    return Verdict::Skip("violation owned by another property".into());
                }
            }
        }
        if m.lenient {
            return Verdict::Pass;
        }
        let rc = ReadCfg { policy: c.read.clone(), bufs: c.bufs.clone(), max_content_entries: 64 };
        match check_reader(&store_f, &m, &rc, ctx) {
            Ok(()) => {}
            Err(e) => {
                let owner = &e.class[..3];
                if owner == prop || prop == "C02" && owner == "C01" {
                    // for C02 a reader disagreement on a validated archive is reported under C02 only if
                    // the independent judge also objects; here it is C01's business
                    if owner == prop {
                        return viol(e.class, e.detail);
                    }
                    ctx.probe("other_property:C01");
                } else {
                    ctx.probe(&format!("other_property:{owner}"));
                }
            }
        }
        if m.entries.iter().any(|e| e.len() > 0) {
            ctx.sig = Some(mix(prog_sig(&c.ops), ctx.digest));
        }
        if m.entries.len() > 1 {
            ctx.probe("multi_entry");
        }
        Verdict::Pass
    }
    fn shrink(&self, case: &Value) -> Vec<Value> {
        let c: RtCase = match serde_json::from_value(case.clone()) {
            Ok(c) => c,
            Err(_) => return vec![],
        };
        let mut out = vec![];
        for p in [&c.sink, &c.read] {
            if !matches!(p, Policy::Pure) {
                let mut d = c.clone();
                if std::ptr::eq(p, &c.sink) {
                    d.sink = Policy::Pure;
                } else {
                    d.read = Policy::Pure;
                }
                out.push(d);
            }
        }
        if !c.bufs.is_empty() {
            out.push(RtCase { bufs: vec![], ..c.clone() });
        }
        if c.start_pos != 0 {
            out.push(RtCase { start_pos: 0, ..c.clone() });
        }
        for ops in shrink_ops(&c.ops) {
            out.push(RtCase { ops, ..c.clone() });
        }
        if !c.sources.is_empty() && !c.ops.iter().any(|o| matches!(o, Op::RawCopy { .. })) {
            out.push(RtCase { sources: vec![], ..c.clone() });
        }
        out.into_iter().filter_map(|c| serde_json::to_value(c).ok()).collect()
    }
}
