//! C10: the streaming reader agrees with the seekable reader, however much of each entry the
//! consumer reads before moving on; the visitor API delivers the central metadata afterwards.

use super::common::*;
use crate::indep::build::{build, Enc};
use crate::model::{run_model, Model, ModelCfg};
use crate::ops::*;
use crate::rng::{fnv, mix, Rng};
use crate::runner::*;
use crate::simio::*;
use serde::{Deserialize, Serialize};
use serde_json::Value;
use std::io::Read;
use zip::unstable::stream::{ZipStreamFileMetadata, ZipStreamReader, ZipStreamVisitor};
use zip::ZipArchive;

#[derive(Serialize, Deserialize, Clone, Debug, PartialEq)]
pub enum Consume {
    Nothing,
    One,
    K(u64),
    AllButOne,
    All,
    /// read to EOF and keep reading
    AllAndMore,
    /// exactly size() bytes and not one read more (read_exact / take(size)): the consumer never sees Ok(0)
    Exact,
}

#[derive(Serialize, Deserialize, Clone, Debug, PartialEq)]
pub struct StreamCase {
    pub src: Source,
    pub consume: Vec<Consume>,
    pub policy: Policy,
    pub bufs: Vec<u32>,
    /// bit rot inside ONE entry's compressed data (entry selector, offset selector, bit): that entry may fail to
    /// read in both readers, but every other entry must still be delivered identically - the stream must not
    /// lose its position because an entry's reader returned an error
    #[serde(default)]
    pub damage: Option<(u64, u64, u8)>,
}

pub struct Stream;

#[derive(Clone, Debug, PartialEq)]
struct Meta {
    name: String,
    size: u64,
    csize: u64,
    method: u16,
    dos: (u16, u16),
    crc: u32,
}

struct LogV {
    files: Vec<(Meta, Vec<u8>)>,
    metas: Vec<(String, Option<u32>, String)>,
    order_violation: bool,
    consume: Vec<Consume>,
    bufs: Vec<u32>,
}

fn consume_entry(f: &mut zip::read::ZipFile<'_>, how: &Consume, bufs: &[u32]) -> (Vec<u8>, Option<String>) {
    let size = f.size();
    let want = match how {
        Consume::Nothing => 0,
        Consume::One => 1,
        Consume::K(k) => *k,
        Consume::AllButOne => size.saturating_sub(1),
        Consume::Exact => size,
        Consume::All | Consume::AllAndMore => u64::MAX,
    };
    if want == u64::MAX {
        let (d, e, _) = read_all(f, bufs, 1 << 30);
        if e.is_none() && *how == Consume::AllAndMore {
            let mut b = [0u8; 9];
            for _ in 0..5 {
                if !matches!(f.read(&mut b), Ok(0)) {
                    return (d, Some("read after EOF returned data or an error".into()));
                }
            }
        }
        return (d, e.map(|e| e.to_string()));
    }
    let mut out = vec![];
    let mut i = 0usize;
    while (out.len() as u64) < want {
        let cap = if bufs.is_empty() { 4096 } else { bufs[i % bufs.len()].max(1) as usize };
        i += 1;
        let n = cap.min((want - out.len() as u64) as usize);
        let mut b = vec![0u8; n];
        match f.read(&mut b) {
            Ok(0) => break,
            Ok(k) => out.extend_from_slice(&b[..k]),
            Err(e) if e.kind() == std::io::ErrorKind::Interrupted => {}
            Err(e) => return (out, Some(e.to_string())),
        }
    }
    (out, None)
}

fn meta_of(f: &zip::read::ZipFile<'_>) -> Meta {
    #[allow(deprecated)]
    let method = f.compression().to_u16();
    let lm = f.last_modified();
    Meta { name: f.name().to_string(), size: f.size(), csize: f.compressed_size(), method, dos: (lm.datepart(), lm.timepart()), crc: f.crc32() }
}

impl ZipStreamVisitor for LogV {
    fn visit_file(&mut self, file: &mut zip::read::ZipFile<'_>) -> zip::result::ZipResult<()> {
        if !self.metas.is_empty() {
            self.order_violation = true;
        }
        let how = self.consume.get(self.files.len()).cloned().unwrap_or(Consume::All);
        let m = meta_of(file);
        let (d, _e) = consume_entry(file, &how, &self.bufs);
        self.files.push((m, d));
        Ok(())
    }
    fn visit_additional_metadata(&mut self, m: &ZipStreamFileMetadata) -> zip::result::ZipResult<()> {
        self.metas.push((m.name().to_string(), m.unix_mode(), m.comment().to_string()));
        Ok(())
    }
}

impl Scenario for Stream {
    fn name(&self) -> &'static str {
        "stream"
    }
    fn total(&self, tier: Tier) -> u64 {
        match tier {
            Tier::Quick => 120_000,
            Tier::Thorough => 4_000_000,
        }
    }
    fn rule(&self) -> &'static str {
        "one case = an archive (writer program without encryption, or independently built layout with sizes in the local headers, optionally with one encrypted / data-descriptor entry that the stream must refuse) + a per-entry consumption pattern from {0, 1, k, all-1, all, all+reads after EOF} + short-read schedule on the non-seekable stream + caller buffers; the seekable reader on the same bytes is the reference. Non-trivial = at least two entries were streamed with at least one of them released before being read to the end; distinct = (archive shape hash, consumption pattern, schedule digest)"
    }
    fn gen(&self, seed: u64, idx: u64, _tier: Tier) -> Value {
        let s = mix(mix(seed, fnv(b"stream")), idx);
        let mut r = Rng::derive(s, "workload");
        let mut rs = Rng::derive(s, "swarm");
        let mc = *rs.pick(&[16u64, 300, 4096, 70_000, 200_000]);
        let src = if rs.chance(1, 2) {
            let cfg = GenCfg { max_entries: 6, max_content: mc, methods: METHODS.to_vec(), extra: true, aligned: true, enc: false, n_sources: 0, src_lens: vec![], append: rs.chance(1, 10), long_names: false, comment_max: 40, misc_ops: true };
            let mut ops = gen_program(&mut r, &cfg);
            if ops.is_empty() {
                ops.push(Op::StartFile { name: "only".into(), o: Opts::default() });
            }
            Source::Prog(ops)
        } else {
            let mut l = gen_layout(&mut r, 6, mc, false);
            l.prefix = 0;
            l.trailing = 0;
            l.gap_before_cd = 0;
            if l.entries.is_empty() {
                l.entries.push(Default::default());
            }
            let refuse = rs.chance(1, 5);
            let n = l.entries.len();
            for (i, e) in l.entries.iter_mut().enumerate() {
                e.gap_before = 0;
                e.dd = 0;
                e.enc = None;
                if !matches!(e.method, 0 | 8 | 12 | 93) {
                    e.method = 0;
                }
                if refuse && i + 1 == n {
                    if r.chance(1, 2) {
                        e.dd = r.range(1, 4) as u8;
                    } else {
                        e.enc = Some(Enc::ZipCrypto { pw: crate::content::Hex(b"pw".to_vec()), infozip: false });
                    }
                }
            }
            Source::Built(l)
        };
        let consume = (0..8)
            .map(|_| match r.below(8) {
                0 => Consume::Nothing,
                1 => Consume::One,
                2 => Consume::K(r.size(mc)),
                3 => Consume::AllButOne,
                4 => Consume::AllAndMore,
                5 => Consume::Exact,
                _ => Consume::All,
            })
            .collect();
        let damage = if rs.chance(1, 6) { Some((r.next_u64(), r.next_u64(), r.below(8) as u8)) } else { None };
        let case = StreamCase { src, consume, policy: gen_policy_short(&mut r), bufs: gen_bufs(&mut r), damage };
        serde_json::to_value(case).unwrap_or(Value::Null)
    }
    fn run(&self, case: &Value, ctx: &mut Ctx) -> Verdict {
        let c: StreamCase = match serde_json::from_value(case.clone()) {
            Ok(c) => c,
            Err(e) => return Verdict::Harness(format!("bad case: {e}")),
        };
        // image, and which stream positions must be refused
        let (img, refused): (Vec<u8>, Vec<bool>) = match &c.src {
            Source::Prog(ops) => {
                let store = shared_empty();
                let (out, _io) = super::prog::exec_on(store.clone(), false, ops, &[], &Policy::Pure, 0, true);
                let mut m = Model::new(ModelCfg { enforce_unrepresentable: false, bzip2_level0_err: true });
                let lookup = |_: usize, _: usize, _: u8| None;
                if run_model(&mut m, ops, &out.steps, &out.final_res, &lookup).is_err() || !m.complete || m.lenient || m.chaos {
                    return Verdict::Skip("program did not produce a complete archive".into());
                }
                if out.lives.iter().any(|(app, end, len)| *app && end < len) {
                    return Verdict::Skip("append left a stale tail (D12)".into());
                }
                let n = m.entries.len();
                (image_of(&store), vec![false; n])
            }
            Source::Built(l) => {
                let b = build(l);
                (b.image, l.entries.iter().map(|e| e.enc.is_some() || e.dd != 0).collect())
            }
        };
        // optional bit rot inside one entry's data extent
        let mut img = img;
        let mut damaged: Option<usize> = None;
        if let (Some((es, os, bit)), false) = (c.damage, refused.iter().any(|x| *x)) {
            if let Ok(p) = crate::indep::parse(&img) {
                let mut ext: Vec<(u64, u64, u64)> = vec![]; // (header pos, data start, csize)
                for (ci, cd) in p.centrals.iter().enumerate() {
                    if let Some(Ok(l)) = p.locals.get(ci) {
                        ext.push((l.pos, l.data_start, cd.csize));
                    }
                }
                ext.sort();
                if ext.len() == p.centrals.len() && !ext.is_empty() {
                    let k = (es % ext.len() as u64) as usize;
                    let (_, ds, cs) = ext[k];
                    if cs > 0 && (ds + cs) as usize <= img.len() {
                        img[(ds + os % cs) as usize] ^= 1 << bit;
                        damaged = Some(k);
                        *ctx.fired.entry("BitFlip:entry-data".into()).or_insert(0) += 1;
                    }
                }
            }
        }
        // reference: the seekable reader, in local-header (= stream) order
        let mut ar = match ZipArchive::new(std::io::Cursor::new(img.clone())) {
            Ok(a) => a,
            Err(e) => return Verdict::Skip(format!("seekable reader rejects the archive: {}", zerr_pub(&e))),
        };
        let mut refs: Vec<(u64, Meta, Vec<u8>, Option<u32>, String)> = vec![];
        let mut central: Vec<(String, Option<u32>, String)> = vec![];
        for i in 0..ar.len() {
            let mut f = match ar.by_index_raw(i) {
                Ok(f) => f,
                Err(e) => return Verdict::Skip(format!("seekable reader: {}", zerr_pub(&e))),
            };
            let m = meta_of(&f);
            let hs = f.header_start();
            let um = f.unix_mode();
            let cm = f.comment().to_string();
            central.push((m.name.clone(), um, cm.clone()));
            drop(f);
            let mut data = vec![];
            if let Ok(mut f) = ar.by_index(i) {
                let _ = f.read_to_end(&mut data);
            }
            refs.push((hs, m, data, um, cm));
        }
        refs.sort_by_key(|x| x.0);
        if refs.is_empty() {
            return Verdict::Skip("no entries (the property speaks of archives with at least one entry)".into());
        }
        let n = refs.len();
        let store = shared_from(&img);
        // ---- read_zipfile_from_stream loop
        let mut st = SimStream::new(store.clone(), c.policy.clone());
        let io = st.inner.io.clone();
        let res: Result<bool, Verdict> = (|| {
            let mut partial = false;
            for i in 0..=n {
                let r = guard(|| match zip::read::read_zipfile_from_stream(&mut st) {
                    Ok(Some(mut f)) => {
                        let m = meta_of(&f);
                        let how = c.consume.get(i).cloned().unwrap_or(Consume::All);
                        let (d, e) = consume_entry(&mut f, &how, &c.bufs);
                        Ok(Some((m, d, e, how)))
                    }
                    Ok(None) => Ok(None),
                    Err(e) => Err(zerr_pub(&e)),
                })?;
                let must_refuse = refused.get(i).copied().unwrap_or(false);
                match r {
                    Ok(Some((m, d, e, how))) => {
                        if i >= n {
                            return Err(viol("C10/extra-entry", format!("the stream produced an entry after the last one ({:?})", m.name)));
                        }
                        if must_refuse {
                            return Err(viol("C10/unsupported-entry-served", format!("entry {i} is encrypted or uses a data descriptor but the stream returned data for it")));
                        }
                        let (_hs, rm, rd, _um, _cm) = &refs[i];
                        if &m != rm {
                            return Err(viol("C10/metadata", format!("entry {i}: stream reports {m:?}, seekable reader {rm:?}")));
                        }
                        if damaged == Some(i) {
                            // its data is damaged: whatever its reader returned, the NEXT entries are the point
                            ctx.probe(if e.is_some() { "damaged_entry_read_error_then_moved_on" } else { "damaged_entry_no_error" });
                            continue;
                        }
                        if let Some(e) = e {
                            return Err(viol("C10/read-error", format!("entry {i}: {e}")));
                        }
                        let want_len = match how {
                            Consume::Nothing => 0,
                            Consume::One => 1.min(rd.len()),
                            Consume::K(k) => (k as usize).min(rd.len()),
                            Consume::AllButOne => rd.len().saturating_sub(1),
                            Consume::Exact => (m.size as usize).min(rd.len()),
                            _ => rd.len(),
                        };
                        if d.len() != want_len || d[..] != rd[..want_len] {
                            return Err(viol("C10/content", format!("entry {i} ({how:?}): got {} bytes, expected the first {want_len} of {}", d.len(), rd.len())));
                        }
                        if want_len < rd.len() {
                            partial = true;
                            ctx.probe("released_before_eof");
                        }
                    }
                    Ok(None) => {
                        if i < n {
                            return Err(viol("C10/early-end", format!("end of entries signalled after {i} of {n}")));
                        }
                        ctx.probe("end_of_entries_signalled");
                        break;
                    }
                    Err(e) => {
                        if must_refuse && e.starts_with("UnsupportedArchive") {
                            ctx.probe("unsupported_entry_refused");
                            return Ok(partial);
                        }
                        return Err(viol("C10/stream-error", format!("entry {i} of {n}: {e}")));
                    }
                }
            }
            Ok(partial)
        })();
        ctx.absorb(&io);
        let partial = match res {
            Ok(p) => p,
            Err(v) => return v,
        };
        // ---- visitor API
        if !refused.iter().any(|x| *x) {
            let st2 = SimStream::new(store.clone(), c.policy.clone());
            let io2 = st2.inner.io.clone();
            let mut v = LogV { files: vec![], metas: vec![], order_violation: false, consume: c.consume.clone(), bufs: c.bufs.clone() };
            let r = match guard(|| ZipStreamReader::new(st2).visit(&mut v)) {
                Ok(r) => r,
                Err(vd) => return vd,
            };
            ctx.absorb(&io2);
            if let Err(e) = r {
                return viol("C10/visit-error", format!("visit failed: {}", zerr_pub(&e)));
            }
            if v.order_violation {
                return viol("C10/visit-order", "visit_file called after visit_additional_metadata".to_string());
            }
            if v.files.len() != n {
                return viol("C10/visit-files", format!("visit_file called {} times for {n} entries", v.files.len()));
            }
            for (i, (m, _d)) in v.files.iter().enumerate() {
                if m != &refs[i].1 {
                    return viol("C10/visit-metadata", format!("visit_file #{i}: {m:?} vs {:?}", refs[i].1));
                }
            }
            if v.metas != central {
                return viol("C10/visit-additional-metadata", format!("visit_additional_metadata delivered {} records, the central directory has {}; first difference: {:?} vs {:?}", v.metas.len(), central.len(), v.metas.iter().zip(central.iter()).find(|(a, b)| a != b).map(|x| x.0), v.metas.iter().zip(central.iter()).find(|(a, b)| a != b).map(|x| x.1)));
            }
            ctx.probe("visitor_metadata_delivered");
        }
        if n >= 2 && partial {
            let mut h = 0u64;
            for r in &refs {
                h = mix(h, r.1.method as u64 | (r.1.size.min(1 << 20)) << 16);
            }
            ctx.sig = Some(mix(mix(h, fnv(format!("{:?}", &c.consume[..n.min(8)]).as_bytes())), ctx.digest));
        }
        Verdict::Pass
    }
    fn shrink(&self, case: &Value) -> Vec<Value> {
        let c: StreamCase = match serde_json::from_value(case.clone()) {
            Ok(c) => c,
            Err(_) => return vec![],
        };
        let mut out = vec![];
        if !matches!(c.policy, Policy::Pure) {
            out.push(StreamCase { policy: Policy::Pure, ..c.clone() });
        }
        if !c.bufs.is_empty() {
            out.push(StreamCase { bufs: vec![], ..c.clone() });
        }
        if c.damage.is_some() {
            out.push(StreamCase { damage: None, ..c.clone() });
        }
        if c.consume.iter().any(|x| *x != Consume::All) {
            out.push(StreamCase { consume: vec![Consume::All; 8], ..c.clone() });
            for i in 0..c.consume.len() {
                if c.consume[i] != Consume::All {
                    let mut v = c.consume.clone();
                    v[i] = Consume::All;
                    out.push(StreamCase { consume: v, ..c.clone() });
                }
            }
        }
        match &c.src {
            Source::Prog(ops) => {
                for o in shrink_ops(ops) {
                    out.push(StreamCase { src: Source::Prog(o), ..c.clone() });
                }
            }
            Source::Built(l) => {
                for l2 in shrink_layout(l) {
                    if !l2.entries.is_empty() {
                        out.push(StreamCase { src: Source::Built(l2), ..c.clone() });
                    }
                }
            }
        }
        out.into_iter().filter_map(|c| serde_json::to_value(c).ok()).collect()
    }
}

// ------------------------------------------------------------------------------------------
// C10 on the sparse disk: entries whose sizes sit on the 32-bit limit, archives that start near / beyond
// 4 GiB, more than 65535 entries. "For every unencrypted archive ... emitted by this crate's writer" includes
// those; the local header of an entry of exactly 0xFFFFFFFF bytes carries the real sizes and no ZIP64 record.

#[derive(Serialize, Deserialize, Clone, Debug, PartialEq)]
pub struct StreamHugeCase {
    pub ops: Vec<Op>,
    pub start_pos: u64,
    pub consume: Vec<Consume>,
    pub policy: Policy,
}

pub struct StreamHuge;

/// (bytes delivered, CRC of them, error) for the first `want` bytes of a reader
fn digest_prefix<R: Read>(f: &mut R, want: u64, tick: &mut dyn FnMut()) -> (u64, u32, Option<String>) {
    let mut crc = crate::content::Crc::new();
    let mut n = 0u64;
    let mut buf = vec![0u8; 1 << 20];
    while n < want {
        let cap = ((want - n).min(buf.len() as u64)) as usize;
        match f.read(&mut buf[..cap]) {
            Ok(0) => break,
            Ok(k) => {
                crc.update(&buf[..k]);
                n += k as u64;
                if n % (1 << 28) < k as u64 {
                    tick();
                }
            }
            Err(e) if e.kind() == std::io::ErrorKind::Interrupted => {}
            Err(e) => return (n, crc.finish(), Some(e.to_string())),
        }
    }
    (n, crc.finish(), None)
}

fn want_of(how: &Consume, size: u64) -> u64 {
    match how {
        Consume::Nothing => 0,
        Consume::One => 1,
        Consume::K(k) => *k,
        Consume::AllButOne => size.saturating_sub(1),
        Consume::Exact => size,
        Consume::All | Consume::AllAndMore => u64::MAX,
    }
}

struct HugeV {
    files: Vec<(Meta, u64, u32, Option<String>)>,
    metas: Vec<(String, Option<u32>, String)>,
    order_violation: bool,
    consume: Vec<Consume>,
}
impl ZipStreamVisitor for HugeV {
    fn visit_file(&mut self, file: &mut zip::read::ZipFile<'_>) -> zip::result::ZipResult<()> {
        if !self.metas.is_empty() {
            self.order_violation = true;
        }
        let how = self.consume.get(self.files.len()).cloned().unwrap_or(Consume::All);
        let m = meta_of(file);
        let (n, c, e) = digest_prefix(file, want_of(&how, m.size), &mut || {});
        self.files.push((m, n, c, e));
        Ok(())
    }
    fn visit_additional_metadata(&mut self, m: &ZipStreamFileMetadata) -> zip::result::ZipResult<()> {
        self.metas.push((m.name().to_string(), m.unix_mode(), m.comment().to_string()));
        Ok(())
    }
}

impl Scenario for StreamHuge {
    fn name(&self) -> &'static str {
        "stream_huge"
    }
    fn total(&self, tier: Tier) -> u64 {
        match tier {
            Tier::Quick => 24,
            Tier::Thorough => 160,
        }
    }
    fn rule(&self) -> &'static str {
        "one case = an archive written by the crate's writer onto the sparse disk with an entry of 2^32-2 .. 2^32+1 bytes (large_file exactly where the writer requires it, or always), or starting around 4 GiB, or holding more than 65535 entries, streamed from a non-seekable source with a per-entry consumption pattern; the seekable reader on the same disk is the reference (metadata, and length + CRC of the consumed prefix). Non-trivial = every entry was streamed and the visitor delivered the central metadata; distinct = (program shape, start position class, consumption pattern)"
    }
    fn gen(&self, seed: u64, idx: u64, tier: Tier) -> Value {
        const G4: u64 = 1 << 32;
        let s = mix(mix(seed, fnv(b"stream_huge")), idx);
        let mut r = Rng::derive(s, "workload");
        let small = |r: &mut Rng, name: &str| -> Vec<Op> {
            let m = r.pickc(&[0u16, 8, 8, 12, 93]);
            vec![Op::StartFile { name: name.into(), o: Opts { method: m, ..Opts::default() } }, Op::Write { c: crate::content::Content::gen(r, 3000), split: vec![] }]
        };
        let mut ops: Vec<Op> = vec![];
        let mut start_pos = 0u64;
        let slot = idx % 12;
        match slot {
            0..=7 => {
                let len = [G4 - 2, G4 - 1, G4, G4 + 1][(slot % 4) as usize];
                // large_file only where the writer demands it (slots 0-3), or always (4-7)
                let large = len > G4 - 1 || slot >= 4;
                let method = if tier == Tier::Thorough && r.chance(1, 3) { 8 } else { 0 };
                if r.chance(2, 3) {
                    ops.extend(small(&mut r, "head.txt"));
                }
                ops.push(Op::StartFile { name: format!("big{len}"), o: Opts { method, large, ..Opts::default() } });
                ops.push(Op::Write { c: crate::content::Content::Sparse { len, seed: r.below(1000) }, split: vec![] });
                if r.chance(2, 3) {
                    ops.extend(small(&mut r, "tail.txt"));
                }
            }
            8 | 9 => {
                // header offsets (and the directory) around / beyond 4 GiB: ZIP64 records in the central headers only
                start_pos = if slot == 8 { G4 - r.below(300) } else { G4 + r.below(100_000) };
                for i in 0..r.range(2, 5) {
                    ops.extend(small(&mut r, &format!("e{i}")));
                }
            }
            10 => {
                ops.push(Op::Many { n: r.pickc(&[65535u32, 65536, 65537]), prefix: "e".into() });
                ops.extend(small(&mut r, "last"));
            }
            _ => {
                // a compressed size on the limit is out of reach cheaply; an entry of 2^32-1 bytes behind one that
                // already pushed the offsets beyond 4 GiB
                ops.push(Op::StartFile { name: "first".into(), o: Opts { method: 0, large: true, ..Opts::default() } });
                ops.push(Op::Write { c: crate::content::Content::Sparse { len: G4 + 5, seed: 1 }, split: vec![] });
                ops.push(Op::StartFile { name: "second".into(), o: Opts { method: 0, large: false, ..Opts::default() } });
                ops.push(Op::Write { c: crate::content::Content::Sparse { len: G4 - 1, seed: 2 }, split: vec![] });
                ops.extend(small(&mut r, "tail.txt"));
            }
        }
        let consume = (0..4)
            .map(|_| match r.below(7) {
                0 => Consume::Nothing,
                1 => Consume::One,
                2 => Consume::K(r.below(1 << 20) + 1),
                3 => Consume::AllButOne,
                4 => Consume::Exact,
                _ => Consume::All,
            })
            .collect();
        let policy = if r.chance(1, 2) { Policy::Pure } else { Policy::BufLike { cap: 1 << 16 } };
        serde_json::to_value(StreamHugeCase { ops, start_pos, consume, policy }).unwrap_or(Value::Null)
    }
    fn run(&self, case: &Value, ctx: &mut Ctx) -> Verdict {
        let c: StreamHugeCase = match serde_json::from_value(case.clone()) {
            Ok(c) => c,
            Err(e) => return Verdict::Harness(format!("bad case: {e}")),
        };
        let store = shared_empty();
        let (out, _io) = super::prog::exec_on(store.clone(), false, &c.ops, &[], &Policy::Pure, c.start_pos, true);
        ctx.tick();
        if let Some(p) = take_panic() {
            return viol(format!("C10/panic/{}", p.1), p.0);
        }
        let mut m = Model::new(ModelCfg { enforce_unrepresentable: false, bzip2_level0_err: true });
        let lookup = |_: usize, _: usize, _: u8| None;
        if run_model(&mut m, &c.ops, &out.steps, &out.final_res, &lookup).is_err() || !m.complete || m.lenient || m.chaos {
            return Verdict::Skip("program did not produce a complete archive".into());
        }
        // reference: the seekable reader on the same disk, entries in local-header (= stream) order
        let mut ar = match guard(|| ZipArchive::new(SimDisk::new(store.clone(), Policy::Pure))) {
            Ok(Ok(a)) => a,
            Ok(Err(e)) => return Verdict::Skip(format!("seekable reader rejects the archive: {}", zerr_pub(&e))),
            Err(v) => return v,
        };
        let mut order: Vec<(u64, usize)> = vec![];
        let mut central: Vec<(String, Option<u32>, String)> = vec![];
        let mut metas: Vec<Meta> = vec![];
        for i in 0..ar.len() {
            let f = match ar.by_index_raw(i) {
                Ok(f) => f,
                Err(e) => return Verdict::Skip(format!("seekable reader: {}", zerr_pub(&e))),
            };
            order.push((f.header_start(), i));
            central.push((f.name().to_string(), f.unix_mode(), f.comment().to_string()));
            metas.push(meta_of(&f));
        }
        order.sort();
        let n = order.len();
        let many = n > 1000;
        // what the seekable reader delivers for the consumed prefix of every entry
        let how_of = |k: usize| -> Consume {
            if many {
                if k % 7 == 0 { Consume::All } else { Consume::Nothing }
            } else {
                c.consume.get(k).cloned().unwrap_or(Consume::All)
            }
        };
        let mut refs: Vec<(u64, u32)> = vec![];
        for (k, (_, i)) in order.iter().enumerate() {
            let how = how_of(k);
            let mut f = match ar.by_index(*i) {
                Ok(f) => f,
                Err(e) => return Verdict::Skip(format!("seekable reader: {}", zerr_pub(&e))),
            };
            let size = f.size();
            let (len, crc, e) = digest_prefix(&mut f, want_of(&how, size), &mut || ctx.tick());
            if let Some(e) = e {
                return Verdict::Skip(format!("seekable reader: read error {e}"));
            }
            refs.push((len, crc));
        }
        // ---- read_zipfile_from_stream loop (the stream starts where the archive starts)
        let mut st = SimStream::new(store.clone(), c.policy.clone());
        st.inner.pos = c.start_pos;
        let io = st.inner.io.clone();
        set_budget(&io, u64::MAX);
        for k in 0..=n {
            let how = how_of(k);
            let r = match guard(|| match zip::read::read_zipfile_from_stream(&mut st) {
                Ok(Some(mut f)) => {
                    let m = meta_of(&f);
                    let (len, crc, e) = digest_prefix(&mut f, want_of(&how, m.size), &mut || {});
                    Ok(Some((m, len, crc, e)))
                }
                Ok(None) => Ok(None),
                Err(e) => Err(zerr_pub(&e)),
            }) {
                Ok(r) => r,
                Err(v) => return v,
            };
            ctx.tick();
            match r {
                Ok(Some((m, len, crc, e))) => {
                    if k >= n {
                        return viol("C10/extra-entry", format!("the stream produced an entry after the last one ({:?})", m.name));
                    }
                    let rm = &metas[order[k].1];
                    if &m != rm {
                        return viol("C10/metadata", format!("entry {k}: stream reports {m:?}, seekable reader {rm:?}"));
                    }
                    if let Some(e) = e {
                        return viol("C10/read-error", format!("entry {k}: {e}"));
                    }
                    if (len, crc) != refs[k] {
                        return viol("C10/content", format!("entry {k} ({how:?}): stream delivered {len} bytes (CRC {crc:08x}), the seekable reader {} bytes (CRC {:08x})", refs[k].0, refs[k].1));
                    }
                    if m.size >= (1u64 << 32) - 2 {
                        ctx.probe("entry_on_the_32bit_limit_streamed");
                    }
                }
                Ok(None) => {
                    if k < n {
                        return viol("C10/early-end", format!("end of entries signalled after {k} of {n}"));
                    }
                    ctx.probe("end_of_entries_signalled");
                    break;
                }
                Err(e) => return viol("C10/stream-error", format!("entry {k} of {n}: {e}")),
            }
        }
        ctx.absorb(&io);
        // ---- visitor API
        let mut st2 = SimStream::new(store.clone(), c.policy.clone());
        st2.inner.pos = c.start_pos;
        set_budget(&st2.inner.io, u64::MAX);
        let mut v = HugeV { files: vec![], metas: vec![], order_violation: false, consume: (0..n).map(|k| how_of(k)).collect() };
        let r = match guard(|| ZipStreamReader::new(st2).visit(&mut v)) {
            Ok(r) => r,
            Err(vd) => return vd,
        };
        ctx.tick();
        if let Err(e) = r {
            return viol("C10/visit-error", format!("visit failed: {}", zerr_pub(&e)));
        }
        if v.order_violation {
            return viol("C10/visit-order", "visit_file called after visit_additional_metadata".to_string());
        }
        if v.files.len() != n {
            return viol("C10/visit-files", format!("visit_file called {} times for {n} entries", v.files.len()));
        }
        for (k, (m, len, crc, e)) in v.files.iter().enumerate() {
            if m != &metas[order[k].1] {
                return viol("C10/visit-metadata", format!("visit_file #{k}: {m:?} vs {:?}", metas[order[k].1]));
            }
            if let Some(e) = e {
                return viol("C10/read-error", format!("visit_file #{k}: {e}"));
            }
            if (*len, *crc) != refs[k] {
                return viol("C10/content", format!("visit_file #{k}: {len} bytes (CRC {crc:08x}) vs {} bytes (CRC {:08x})", refs[k].0, refs[k].1));
            }
        }
        if v.metas != central {
            let d = v.metas.iter().zip(central.iter()).position(|(a, b)| a != b);
            return viol("C10/visit-additional-metadata", format!("visit_additional_metadata delivered {} records, the central directory has {}; first difference at {:?}", v.metas.len(), central.len(), d));
        }
        ctx.probe("visitor_metadata_delivered");
        if c.start_pos >= (1u64 << 32) - 300 {
            ctx.probe("archive_around_4gib_streamed");
        }
        if many {
            ctx.probe("more_than_65535_entries_streamed");
        }
        ctx.sig = Some(mix(mix(super::prog::prog_sig(&c.ops), c.start_pos >> 20), fnv(format!("{:?}", c.consume).as_bytes())));
        Verdict::Pass
    }
    fn shrink(&self, case: &Value) -> Vec<Value> {
        let c: StreamHugeCase = match serde_json::from_value(case.clone()) {
            Ok(c) => c,
            Err(_) => return vec![],
        };
        let mut out = vec![];
        if !matches!(c.policy, Policy::Pure) {
            out.push(StreamHugeCase { policy: Policy::Pure, ..c.clone() });
        }
        if c.consume.iter().any(|x| *x != Consume::Nothing) {
            out.push(StreamHugeCase { consume: vec![Consume::Nothing; 4], ..c.clone() });
        }
        for o in shrink_ops(&c.ops) {
            out.push(StreamHugeCase { ops: o, ..c.clone() });
        }
        out.into_iter().filter_map(|c| serde_json::to_value(c).ok()).collect()
    }
}
