//! The storage / stream seam: a sparse in-memory disk (`SimDisk`, Read+Write+Seek) and a
//! non-seekable stream (`SimStream`, Read) whose every call is decided by an `IoPolicy`.
//! With the `Pure` policy a SimDisk behaves exactly like `std::io::Cursor<Vec<u8>>`
//! (checked by `selfcheck`).

use crate::rng::{fnv_add, Rng};
use serde::{Deserialize, Serialize};
use std::collections::BTreeMap;
use std::io::{self, Read, Seek, SeekFrom, Write};
use std::sync::{Arc, Mutex};

pub const PAGE: u64 = 1 << 16;

#[derive(Default, Clone)]
pub struct Store {
    pages: BTreeMap<u64, Box<[u8]>>,
    pub len: u64,
}

impl Store {
    pub fn from_vec(v: &[u8]) -> Store {
        let mut s = Store::default();
        s.write_at(0, v);
        s
    }
    pub fn pages_stored(&self) -> usize {
        self.pages.len()
    }
    pub fn read_at(&self, pos: u64, buf: &mut [u8]) -> usize {
        if pos >= self.len {
            return 0;
        }
        let n = ((self.len - pos).min(buf.len() as u64)) as usize;
        let mut done = 0usize;
        while done < n {
            let p = pos + done as u64;
            let page = p / PAGE;
            let off = (p % PAGE) as usize;
            let take = (n - done).min(PAGE as usize - off);
            match self.pages.get(&page) {
                Some(pg) => buf[done..done + take].copy_from_slice(&pg[off..off + take]),
                None => buf[done..done + take].iter_mut().for_each(|b| *b = 0),
            }
            done += take;
        }
        n
    }
    pub fn write_at(&mut self, pos: u64, data: &[u8]) {
        let mut done = 0usize;
        while done < data.len() {
            let p = pos + done as u64;
            let page = p / PAGE;
            let off = (p % PAGE) as usize;
            let take = (data.len() - done).min(PAGE as usize - off);
            let chunk = &data[done..done + take];
            if let Some(pg) = self.pages.get_mut(&page) {
                pg[off..off + take].copy_from_slice(chunk);
            } else if chunk.iter().any(|b| *b != 0) {
                let mut pg = vec![0u8; PAGE as usize].into_boxed_slice();
                pg[off..off + take].copy_from_slice(chunk);
                self.pages.insert(page, pg);
            }
            done += take;
        }
        let end = pos + data.len() as u64;
        if end > self.len {
            self.len = end;
        }
    }
    /// whole image; only for images known to be small
    pub fn to_vec(&self) -> Vec<u8> {
        assert!(self.len < (1 << 31), "to_vec on a huge sparse store");
        let mut v = vec![0u8; self.len as usize];
        self.read_at(0, &mut v);
        v
    }
    pub fn slice(&self, pos: u64, n: usize) -> Vec<u8> {
        let mut v = vec![0u8; n];
        let got = self.read_at(pos, &mut v);
        v.truncate(got);
        v
    }
    /// content hash of the whole (possibly huge, sparse) image
    pub fn digest(&self) -> u64 {
        let mut h = crate::rng::fnv_add(0xcbf29ce484222325, self.len);
        for (k, pg) in self.pages.iter() {
            if pg.iter().any(|b| *b != 0) {
                h = crate::rng::fnv_add(h, *k);
                h = crate::rng::mix(h, crate::rng::fnv(pg));
            }
        }
        h
    }
    pub fn truncate(&mut self, len: u64) {
        if len < self.len {
            // zero the tail of the boundary page, drop later pages
            let keep_page = len / PAGE;
            let off = (len % PAGE) as usize;
            let later: Vec<u64> = self.pages.range(keep_page + 1..).map(|(k, _)| *k).collect();
            for k in later {
                self.pages.remove(&k);
            }
            if let Some(pg) = self.pages.get_mut(&keep_page) {
                pg[off..].iter_mut().for_each(|b| *b = 0);
            }
            self.len = len;
        }
    }
}

pub type Shared = Arc<Mutex<Store>>;

pub fn shared_from(v: &[u8]) -> Shared {
    Arc::new(Mutex::new(Store::from_vec(v)))
}
pub fn shared_empty() -> Shared {
    Arc::new(Mutex::new(Store::default()))
}
pub fn image_of(s: &Shared) -> Vec<u8> {
    s.lock().unwrap_or_else(|e| e.into_inner()).to_vec()
}
pub fn len_of(s: &Shared) -> u64 {
    s.lock().unwrap_or_else(|e| e.into_inner()).len
}

#[derive(Clone, Copy, Debug, PartialEq, Eq, Serialize, Deserialize)]
pub enum EK {
    Other,
    UnexpectedEof,
    PermissionDenied,
    StorageFull,
    BrokenPipe,
    InvalidData,
}
impl EK {
    pub fn kind(self) -> io::ErrorKind {
        match self {
            EK::Other => io::ErrorKind::Other,
            EK::UnexpectedEof => io::ErrorKind::UnexpectedEof,
            EK::PermissionDenied => io::ErrorKind::PermissionDenied,
            EK::StorageFull => io::ErrorKind::WriteZero,
            EK::BrokenPipe => io::ErrorKind::BrokenPipe,
            EK::InvalidData => io::ErrorKind::InvalidData,
        }
    }
}

#[derive(Clone, Copy, Debug, PartialEq, Eq, Serialize, Deserialize)]
pub enum Decision {
    Full,
    Short(u64),
    Eintr,
    ZeroWrite,
    Fail(EK),
    Sticky(EK),
    EofEarly,
}

#[derive(Clone, Copy, Debug, PartialEq, Eq, Hash, Serialize, Deserialize)]
pub enum OpKind {
    Read,
    Write,
    Seek,
    Flush,
}

#[derive(Clone, Debug, PartialEq, Serialize, Deserialize)]
pub enum Policy {
    /// every call does the whole thing
    Pure,
    /// every read/write transfers at most k bytes
    Uniform(u64),
    /// per-call PRNG: with probability `short_pm`/1000 a transfer is cut to a random shorter length
    Prng { seed: u64, short_pm: u32 },
    /// BufReader-like: a refill of `cap` bytes, then serves until the buffer is empty
    BufLike { cap: u64 },
    /// exactly one call (index k over all calls of this handle) gets the decision
    At { k: u64, d: Decision },
    /// listed calls get the listed decisions; everything else is Full (replay / minimisation form)
    Explicit(Vec<(u64, Decision)>),
    /// swarm fault policy: PRNG driven shorts and faults (rates per 1000 calls)
    Faulty { seed: u64, short_pm: u32, eintr_pm: u32, fail_pm: u32, zero_pm: u32, eof_pm: u32 },
}

#[derive(Clone, Debug, Serialize, Deserialize)]
pub struct Event {
    pub call: u64,
    pub op: OpKind,
    pub pos: u64,
    pub req: u64,
    pub granted: u64,
    pub d: Decision,
}

pub struct StepBudgetExceeded;

/// Per-handle policy engine + event log.
pub struct Io {
    pub policy: Policy,
    pub rng: Rng,
    pub calls: u64,
    pub digest: u64,
    pub record: bool,
    pub events: Vec<Event>,
    pub sticky: Option<(OpKind, EK)>,
    pub sticky_all: Option<EK>,
    pub buf_left: u64,
    pub budget: u64,
    pub fired: BTreeMap<&'static str, u64>,
    pub bytes_moved: u64,
    /// number of calls of each kind
    pub kinds: [u64; 4],
    /// highest byte position (exclusive) ever requested by a read
    pub max_read_end: u64,
    /// cursor position of the handle after its most recent call
    pub last_pos: u64,
    pub hook: Option<Arc<dyn Fn() + Send + Sync>>,
}

impl Io {
    pub fn new(policy: Policy) -> Io {
        let seed = match &policy {
            Policy::Prng { seed, .. } | Policy::Faulty { seed, .. } => *seed,
            _ => 0,
        };
        Io {
            policy,
            rng: Rng::new(seed),
            calls: 0,
            digest: 0xcbf29ce484222325,
            record: false,
            events: Vec::new(),
            sticky: None,
            sticky_all: None,
            buf_left: 0,
            budget: u64::MAX,
            fired: BTreeMap::new(),
            bytes_moved: 0,
            kinds: [0; 4],
            max_read_end: 0,
            last_pos: 0,
            hook: None,
        }
    }
    fn fire(&mut self, k: &'static str) {
        *self.fired.entry(k).or_insert(0) += 1;
    }
    fn decide(&mut self, op: OpKind, req: u64) -> Decision {
        let call = self.calls;
        self.calls += 1;
        self.kinds[op as usize] += 1;
        if self.calls > self.budget {
            std::panic::panic_any(StepBudgetExceeded);
        }
        if let Some(h) = &self.hook {
            h();
        }
        if let Some(k) = self.sticky_all {
            return Decision::Fail(k);
        }
        if let Some((sop, k)) = self.sticky {
            if sop == op {
                return Decision::Fail(k);
            }
        }
        let d = match &self.policy {
            Policy::Pure => Decision::Full,
            Policy::Uniform(k) => {
                if (op == OpKind::Read || op == OpKind::Write) && req > *k {
                    Decision::Short(*k)
                } else {
                    Decision::Full
                }
            }
            Policy::Prng { short_pm, .. } => {
                let pm = *short_pm as u64;
                if (op == OpKind::Read || op == OpKind::Write) && req > 1 && self.rng.below(1000) < pm {
                    let n = if self.rng.chance(1, 2) { self.rng.range(1, (req - 1).min(4)) } else { self.rng.range(1, req - 1) };
                    Decision::Short(n)
                } else {
                    Decision::Full
                }
            }
            Policy::BufLike { cap } => {
                if op == OpKind::Read && req > 0 {
                    if self.buf_left == 0 {
                        self.buf_left = *cap;
                    }
                    let n = req.min(self.buf_left);
                    self.buf_left -= n;
                    if n < req {
                        Decision::Short(n)
                    } else {
                        Decision::Full
                    }
                } else {
                    if op == OpKind::Seek {
                        self.buf_left = 0;
                    }
                    Decision::Full
                }
            }
            Policy::At { k, d } => {
                if *k == call {
                    *d
                } else {
                    Decision::Full
                }
            }
            Policy::Explicit(list) => list.iter().find(|(c, _)| *c == call).map(|(_, d)| *d).unwrap_or(Decision::Full),
            Policy::Faulty { short_pm, eintr_pm, fail_pm, zero_pm, eof_pm, .. } => {
                let (s, e, f, z, o) = (*short_pm as u64, *eintr_pm as u64, *fail_pm as u64, *zero_pm as u64, *eof_pm as u64);
                let r = self.rng.below(1000);
                let rw = op == OpKind::Read || op == OpKind::Write;
                if r < f {
                    Decision::Fail(EK::Other)
                } else if r < f + e && op != OpKind::Seek {
                    Decision::Eintr
                } else if r < f + e + z && op == OpKind::Write {
                    Decision::ZeroWrite
                } else if r < f + e + z + o && op == OpKind::Read {
                    Decision::EofEarly
                } else if r < f + e + z + o + s && rw && req > 1 {
                    Decision::Short(self.rng.range(1, req - 1))
                } else {
                    Decision::Full
                }
            }
        };
        // normalise decisions that do not apply to this op class
        let d = match (d, op) {
            (Decision::Short(n), OpKind::Read) | (Decision::Short(n), OpKind::Write) => {
                if req <= 1 || n >= req {
                    Decision::Full
                } else {
                    Decision::Short(n.max(1))
                }
            }
            (Decision::Short(_), _) => Decision::Full,
            (Decision::ZeroWrite, OpKind::Write) => {
                if req == 0 {
                    Decision::Full
                } else {
                    Decision::ZeroWrite
                }
            }
            (Decision::ZeroWrite, _) => Decision::Full,
            (Decision::EofEarly, OpKind::Read) => Decision::EofEarly,
            (Decision::EofEarly, _) => Decision::Full,
            (Decision::Eintr, OpKind::Seek) => Decision::Full,
            (d, _) => d,
        };
        match d {
            Decision::Full => {}
            Decision::Short(_) => self.fire("short"),
            Decision::Eintr => self.fire("eintr"),
            Decision::ZeroWrite => self.fire("zero_write"),
            Decision::Fail(_) => self.fire(match op {
                OpKind::Read => "fail_read",
                OpKind::Write => "fail_write",
                OpKind::Seek => "fail_seek",
                OpKind::Flush => "fail_flush",
            }),
            Decision::Sticky(k) => {
                self.fire("sticky");
                self.sticky = Some((op, k));
            }
            Decision::EofEarly => self.fire("eof_early"),
        }
        d
    }
    fn log(&mut self, call: u64, op: OpKind, pos: u64, req: u64, granted: u64, d: Decision) {
        let mut h = self.digest;
        h = fnv_add(h, call);
        h = fnv_add(h, op as u64);
        h = fnv_add(h, pos);
        h = fnv_add(h, req);
        h = fnv_add(h, granted);
        h = fnv_add(h, match d {
            Decision::Full => 0,
            Decision::Short(n) => 1 + (n << 8),
            Decision::Eintr => 2,
            Decision::ZeroWrite => 3,
            Decision::Fail(k) => 4 + ((k as u64) << 8),
            Decision::Sticky(k) => 5 + ((k as u64) << 8),
            Decision::EofEarly => 6,
        });
        self.digest = h;
        self.bytes_moved += granted;
        if self.record {
            self.events.push(Event { call, op, pos, req, granted, d });
        }
    }
    /// non-Full decisions taken so far, as an Explicit policy (for replay files)
    pub fn explicit(&self) -> Policy {
        Policy::Explicit(self.events.iter().filter(|e| e.d != Decision::Full).map(|e| (e.call, e.d)).collect())
    }
}

pub type IoH = Arc<Mutex<Io>>;

pub fn ioh(p: Policy) -> IoH {
    Arc::new(Mutex::new(Io::new(p)))
}

fn lock<T>(m: &Mutex<T>) -> std::sync::MutexGuard<'_, T> {
    m.lock().unwrap_or_else(|e| e.into_inner())
}

pub struct SimDisk {
    pub store: Shared,
    pub pos: u64,
    pub io: IoH,
    /// called before every read/seek/write (a scheduling point when a model scheduler owns the threads)
    pub yield_hook: Option<Arc<dyn Fn() + Send + Sync>>,
    /// policies handed to the next clones of this reader, in order (a cloned archive handle whose own
    /// reader is faulty); when empty a clone gets a fresh instance of this reader's policy
    pub clone_policies: Option<Arc<Mutex<std::collections::VecDeque<Policy>>>>,
}

impl SimDisk {
    pub fn new(store: Shared, policy: Policy) -> SimDisk {
        SimDisk { store, pos: 0, io: ioh(policy), yield_hook: None, clone_policies: None }
    }
    pub fn with_io(store: Shared, io: IoH) -> SimDisk {
        SimDisk { store, pos: 0, io, yield_hook: None, clone_policies: None }
    }
    pub fn pure(v: &[u8]) -> SimDisk {
        SimDisk::new(shared_from(v), Policy::Pure)
    }
    pub fn at(mut self, pos: u64) -> SimDisk {
        self.pos = pos;
        self
    }
}

impl Clone for SimDisk {
    /// A cloned reader: own cursor, same (read-only) bytes, and its own instance of the same policy
    /// (so that one handle's I/O decisions never depend on how other handles are interleaved).
    fn clone(&self) -> SimDisk {
        let (policy, budget) = {
            let g = lock(&self.io);
            (g.policy.clone(), g.budget)
        };
        let policy = self.clone_policies.as_ref().and_then(|q| lock(q).pop_front()).unwrap_or(policy);
        let io = ioh(policy);
        set_budget(&io, budget);
        SimDisk { store: self.store.clone(), pos: self.pos, io, yield_hook: self.yield_hook.clone(), clone_policies: self.clone_policies.clone() }
    }
}

fn err(k: EK) -> io::Error {
    io::Error::new(k.kind(), "simulated I/O failure")
}

impl Read for SimDisk {
    fn read(&mut self, buf: &mut [u8]) -> io::Result<usize> {
        if let Some(h) = &self.yield_hook {
            h();
        }
        let req = buf.len() as u64;
        let (call, d) = {
            let mut io = lock(&self.io);
            let c = io.calls;
            let d = io.decide(OpKind::Read, req);
            let end = self.pos.saturating_add(req);
            if end > io.max_read_end {
                io.max_read_end = end;
            }
            (c, d)
        };
        let res = match d {
            Decision::Full => Ok(lock(&self.store).read_at(self.pos, buf)),
            Decision::Short(n) => Ok(lock(&self.store).read_at(self.pos, &mut buf[..n as usize])),
            Decision::Eintr => Err(io::Error::new(io::ErrorKind::Interrupted, "simulated EINTR")),
            Decision::EofEarly => Ok(0),
            Decision::Fail(k) | Decision::Sticky(k) => Err(err(k)),
            Decision::ZeroWrite => unreachable!(),
        };
        let granted = *res.as_ref().unwrap_or(&0) as u64;
        self.pos += granted;
        {
            let mut g = lock(&self.io);
            g.log(call, OpKind::Read, self.pos - granted, req, granted, d);
            g.last_pos = self.pos;
        }
        res
    }
}

impl Write for SimDisk {
    /// A gathering sink, like File, Cursor, Vec and BufWriter: one call takes all the slices (or, under a short-write
    /// decision, a prefix of their concatenation). The policy sees it as one write.
    fn write_vectored(&mut self, bufs: &[io::IoSlice<'_>]) -> io::Result<usize> {
        if bufs.iter().filter(|b| !b.is_empty()).count() <= 1 {
            return match bufs.iter().find(|b| !b.is_empty()) {
                Some(b) => self.write(b),
                None => self.write(&[]),
            };
        }
        let joined: Vec<u8> = bufs.iter().flat_map(|b| b.iter().copied()).collect();
        self.write(&joined)
    }
    fn write(&mut self, buf: &[u8]) -> io::Result<usize> {
        let req = buf.len() as u64;
        let (call, d) = {
            let mut io = lock(&self.io);
            let c = io.calls;
            (c, io.decide(OpKind::Write, req))
        };
        let res = match d {
            Decision::Full => {
                lock(&self.store).write_at(self.pos, buf);
                Ok(buf.len())
            }
            Decision::Short(n) => {
                lock(&self.store).write_at(self.pos, &buf[..n as usize]);
                Ok(n as usize)
            }
            Decision::Eintr => Err(io::Error::new(io::ErrorKind::Interrupted, "simulated EINTR")),
            Decision::ZeroWrite => Ok(0),
            Decision::Fail(k) | Decision::Sticky(k) => Err(err(k)),
            Decision::EofEarly => unreachable!(),
        };
        let granted = *res.as_ref().unwrap_or(&0) as u64;
        self.pos += granted;
        {
            let mut g = lock(&self.io);
            g.log(call, OpKind::Write, self.pos - granted, req, granted, d);
            g.last_pos = self.pos;
        }
        res
    }
    fn flush(&mut self) -> io::Result<()> {
        let (call, d) = {
            let mut io = lock(&self.io);
            let c = io.calls;
            (c, io.decide(OpKind::Flush, 0))
        };
        let res = match d {
            Decision::Eintr => Err(io::Error::new(io::ErrorKind::Interrupted, "simulated EINTR")),
            Decision::Fail(k) | Decision::Sticky(k) => Err(err(k)),
            _ => Ok(()),
        };
        lock(&self.io).log(call, OpKind::Flush, self.pos, 0, 0, d);
        res
    }
}

impl Seek for SimDisk {
    fn seek(&mut self, to: SeekFrom) -> io::Result<u64> {
        if let Some(h) = &self.yield_hook {
            h();
        }
        let (call, d) = {
            let mut io = lock(&self.io);
            let c = io.calls;
            (c, io.decide(OpKind::Seek, 0))
        };
        let res = match d {
            Decision::Fail(k) | Decision::Sticky(k) => Err(err(k)),
            _ => {
                let len = lock(&self.store).len;
                let (base, off) = match to {
                    SeekFrom::Start(n) => (n, 0i64),
                    SeekFrom::End(n) => (len, n),
                    SeekFrom::Current(n) => (self.pos, n),
                };
                let np = if off >= 0 { base.checked_add(off as u64) } else { base.checked_sub(off.unsigned_abs()) };
                match np {
                    Some(n) => {
                        self.pos = n;
                        Ok(n)
                    }
                    None => Err(io::Error::new(io::ErrorKind::InvalidInput, "invalid seek to a negative or overflowing position")),
                }
            }
        };
        {
            let mut g = lock(&self.io);
            g.log(call, OpKind::Seek, self.pos, 0, 0, d);
            g.last_pos = self.pos;
        }
        res
    }
}

/// Non-seekable stream over the same kind of store.
pub struct SimStream {
    pub inner: SimDisk,
}
impl SimStream {
    pub fn new(store: Shared, policy: Policy) -> SimStream {
        SimStream { inner: SimDisk::new(store, policy) }
    }
    pub fn pos(&self) -> u64 {
        self.inner.pos
    }
}
impl Read for SimStream {
    fn read(&mut self, buf: &mut [u8]) -> io::Result<usize> {
        self.inner.read(buf)
    }
}

pub struct IoStats {
    pub calls: u64,
    pub digest: u64,
    pub fired: BTreeMap<&'static str, u64>,
    pub bytes: u64,
    pub kinds: [u64; 4],
    pub max_read_end: u64,
}
pub fn stats(io: &IoH) -> IoStats {
    let g = lock(io);
    IoStats { calls: g.calls, digest: g.digest, fired: g.fired.clone(), bytes: g.bytes_moved, kinds: g.kinds, max_read_end: g.max_read_end }
}
pub fn last_pos(io: &IoH) -> u64 {
    lock(io).last_pos
}
pub fn events(io: &IoH) -> Vec<Event> {
    lock(io).events.clone()
}
pub fn set_record(io: &IoH, on: bool) {
    lock(io).record = on;
}
pub fn set_budget(io: &IoH, b: u64) {
    lock(io).budget = b;
}
pub fn explicit_of(io: &IoH) -> Policy {
    lock(io).explicit()
}

/// Start-up self check: the Pure SimDisk must behave exactly like Cursor<Vec<u8>>.
pub fn selfcheck() -> Result<(), String> {
    use std::io::Cursor;
    for seed in 0..200u64 {
        let mut r = Rng::new(seed ^ 0x51D15C);
        let n0 = r.size(300) as usize;
        let init = r.bytes(n0);
        let mut a = Cursor::new(init.clone());
        let store = shared_from(&init);
        let mut b = SimDisk::new(store.clone(), Policy::Pure);
        for step in 0..60 {
            match r.below(6) {
                0 | 1 => {
                    let n = r.size(100) as usize;
                    let mut x = vec![0u8; n];
                    let mut y = vec![0u8; n];
                    let ra = a.read(&mut x).map_err(|e| e.kind());
                    let rb = b.read(&mut y).map_err(|e| e.kind());
                    if ra != rb || x != y {
                        return Err(format!("selfcheck read mismatch seed {seed} step {step}"));
                    }
                }
                2 | 3 => {
                    let n1 = r.size(100) as usize;
                    let d = r.bytes(n1);
                    let ra = a.write(&d).map_err(|e| e.kind());
                    let rb = b.write(&d).map_err(|e| e.kind());
                    if ra != rb {
                        return Err(format!("selfcheck write mismatch seed {seed} step {step}"));
                    }
                }
                _ => {
                    let to = match r.below(3) {
                        0 => SeekFrom::Start(r.below(500)),
                        1 => SeekFrom::End(r.irange(-400, 100)),
                        _ => SeekFrom::Current(r.irange(-300, 300)),
                    };
                    let ra = a.seek(to).map_err(|e| e.kind());
                    let rb = b.seek(to).map_err(|e| e.kind());
                    if ra != rb {
                        return Err(format!("selfcheck seek mismatch seed {seed} step {step}: {ra:?} vs {rb:?}"));
                    }
                }
            }
            if a.position() != b.pos {
                return Err(format!("selfcheck position mismatch seed {seed} step {step}"));
            }
        }
        if a.get_ref() != &image_of(&store) {
            return Err(format!("selfcheck image mismatch seed {seed}"));
        }
    }
    Ok(())
}
