//! Oracles comparing a produced image with the reference model: through the crate's own seekable
//! reader (C01 side) and through the independent parser (C02 side).

use crate::content::{crc32, Crc};
use crate::indep::{self, Parsed, Src, ValidateOpts};
use crate::model::{MEntry, MKind, Mismatch, Model};
use crate::ops::{read_all, zerr_pub};
use crate::runner::Ctx;
use crate::simio::{Policy, Shared, SimDisk};
use std::io::Read;
use zip::ZipArchive;

fn mm(class: &str, detail: String) -> Mismatch {
    Mismatch { class: class.to_string(), detail }
}

pub struct ReadCfg<'a> {
    pub policy: Policy,
    pub bufs: Vec<u32>,
    /// read content of at most this many entries (all metadata is always compared)
    pub max_content_entries: usize,
    /// the independent parse of the same image, when available (offsets are compared against it)
    pub parsed: Option<&'a Parsed>,
}

fn show(s: &str) -> String {
    let t: String = s.chars().take(40).collect();
    format!("{:?}{}", t, if s.len() > 40 { "…" } else { "" })
}

/// compare a streamed ZipFile with the expected content of an entry
fn compare_content<R: Read>(f: &mut R, e: &MEntry, bufs: &[u32], i: usize) -> Result<(), Mismatch> {
    if e.is_small() {
        let want = e.bytes();
        // the provided methods of std::io::Read are ways of reading an entry too (a type may override them):
        // rotate through them, keyed on the case (entry index + buffer schedule), besides the plain read loop
        let (got, err) = match (i + bufs.len()) % 6 {
            2 => {
                let mut v = Vec::new();
                let r = f.read_to_end(&mut v);
                (v, r.err())
            }
            3 => {
                let mut v = vec![0u8; want.len()];
                match f.read_exact(&mut v) {
                    Ok(()) => {
                        // exactly size() bytes were taken; end-of-file comes next, and stays
                        let mut tail = [0u8; 9];
                        let mut err = None;
                        for _ in 0..2 {
                            match f.read(&mut tail) {
                                Ok(0) => {}
                                Ok(n) => {
                                    v.extend_from_slice(&tail[..n]);
                                }
                                Err(e) => err = Some(e),
                            }
                        }
                        (v, err)
                    }
                    Err(er) => (vec![], Some(er)),
                }
            }
            4 => {
                let mut v: Vec<u8> = Vec::new();
                let r = std::io::copy(f, &mut v);
                (v, r.err())
            }
            _ => {
                let (got, err, _) = read_all(f, bufs, want.len() as u64 + 1024);
                (got, err)
            }
        };
        if let Some(er) = err {
            return Err(mm("C01/read-error", format!("entry {i}: read failed after {} bytes: {er}", got.len())));
        }
        if got != want {
            let at = got.iter().zip(want.iter()).position(|(a, b)| a != b).unwrap_or(got.len().min(want.len()));
            return Err(mm("C01/content-mismatch", format!("entry {i}: got {} bytes, expected {}; first difference at {at}", got.len(), want.len())));
        }
        Ok(())
    } else {
        let total = e.len();
        let mut off = 0u64;
        let mut buf = vec![0u8; 1 << 20];
        let mut exp = vec![0u8; 1 << 20];
        loop {
            let n = match f.read(&mut buf) {
                Ok(n) => n,
                Err(er) if er.kind() == std::io::ErrorKind::Interrupted => continue,
                Err(er) => return Err(mm("C01/read-error", format!("entry {i}: read failed at {off}: {er}"))),
            };
            if n == 0 {
                break;
            }
            if off + n as u64 > total {
                return Err(mm("C01/content-mismatch", format!("entry {i}: more than the expected {total} bytes")));
            }
            e.fill(off, &mut exp[..n]);
            if buf[..n] != exp[..n] {
                return Err(mm("C01/content-mismatch", format!("entry {i}: difference in bytes {off}..{}", off + n as u64)));
            }
            off += n as u64;
        }
        if off != total {
            return Err(mm("C01/content-mismatch", format!("entry {i}: got {off} bytes, expected {total}")));
        }
        Ok(())
    }
}

pub fn mode_ok(e: &MEntry, got: Option<u32>) -> bool {
    match (e.mode, got) {
        (None, _) => true,
        (Some(w), g) if e.mode_perm_only => match g {
            Some(g) => g & 0o777 == w & 0o777,
            None => w & 0o777 == 0,
        },
        (Some(w), Some(g)) => w == g,
        (Some(_), None) => false,
    }
}

/// C01 oracle: open the image with the crate's seekable reader and compare with the model.
pub fn check_reader(store: &Shared, m: &Model, rc: &ReadCfg<'_>, ctx: &mut Ctx) -> Result<(), Mismatch> {
    let disk = SimDisk::new(store.clone(), rc.policy.clone());
    let io = disk.io.clone();
    let mut ar = match ZipArchive::new(disk) {
        Ok(a) => a,
        Err(e) => return Err(mm("C01/open-failed", format!("ZipArchive::new failed on a completed archive: {}", zerr_pub(&e)))),
    };
    let r = (|| -> Result<(), Mismatch> {
        // R6: after a failed call only the entries that were already final must be intact
        let frozen = if m.lenient { Some(m.frozen.unwrap_or(0).min(m.entries.len())) } else { None };
        if let Some(fz) = frozen {
            if ar.len() < fz {
                return Err(mm("C01/entry-count", format!("reader reports {} entries, but {fz} entries were complete before the first failed call", ar.len())));
            }
        } else if ar.len() != m.entries.len() {
            return Err(mm("C01/entry-count", format!("reader reports {} entries, model has {}", ar.len(), m.entries.len())));
        }
        if frozen.is_none() && ar.comment() != m.comment.as_slice() {
            return Err(mm("C01/comment", format!("comment differs: got {} bytes, expected {}", ar.comment().len(), m.comment.len())));
        }
        // names as a multiset of distinct keys
        if frozen.is_none() {
            let mut got: Vec<String> = ar.file_names().map(|s| s.to_string()).collect();
            got.sort();
            let mut want: Vec<String> = m.entries.iter().map(|e| e.name.clone()).collect();
            want.sort();
            want.dedup();
            if got != want {
                return Err(mm("C01/file-names", format!("file_names() has {} distinct names, model {}", got.len(), want.len())));
            }
        }
        let n = frozen.unwrap_or(m.entries.len());
        let stride = (n / rc.max_content_entries.max(1)).max(1);
        let mut header_starts: Vec<u64> = Vec::with_capacity(n);
        for (i, e) in m.entries.iter().enumerate().take(n) {
            let read_content = i % stride == 0 || i + 1 == n;
            let undecodable = !matches!(e.method, 0 | 8 | 12 | 93) || e.base_encrypted;
            let opened = if undecodable {
                ar.by_index_raw(i)
            } else if let Some(pw) = &e.password {
                match ar.by_index_decrypt(i, pw) {
                    Ok(Ok(f)) => Ok(f),
                    Ok(Err(_)) => return Err(mm("C01/password-rejected", format!("entry {i}: correct password rejected"))),
                    Err(e) => Err(e),
                }
            } else {
                ar.by_index(i)
            };
            let mut f = match opened {
                Ok(f) => f,
                Err(er) => return Err(mm("C01/entry-open-failed", format!("entry {i} ({}): {}", show(&e.name), zerr_pub(&er)))),
            };
            header_starts.push(f.header_start());
            if f.name() != e.name {
                return Err(mm("C01/name", format!("entry {i}: name {} != expected {}", show(f.name()), show(&e.name))));
            }
            #[allow(deprecated)]
            let meth = f.compression().to_u16();
            if meth != e.method {
                return Err(mm("C01/method", format!("entry {i}: method {meth} != expected {}", e.method)));
            }
            let lm = f.last_modified();
            if (lm.datepart(), lm.timepart()) != e.dos {
                return Err(mm("C01/timestamp", format!("entry {i}: DOS words ({:#x},{:#x}) != expected ({:#x},{:#x})", lm.datepart(), lm.timepart(), e.dos.0, e.dos.1)));
            }
            if let Some(bm) = e.base_mode {
                if f.unix_mode() != bm {
                    return Err(mm("C13/unix-mode", format!("entry {i}: unix_mode {:?} differs from the base archive's {:?}", f.unix_mode(), bm)));
                }
            }
            if let Some(p) = rc.parsed {
                if let Some(Ok(l)) = p.locals.get(i) {
                    if f.data_start() != l.data_start {
                        return Err(mm("C17/reader-data-start", format!("entry {i}: reader reports data_start {} but the data begins at {}", f.data_start(), l.data_start)));
                    }
                }
            }
            if !mode_ok(e, f.unix_mode()) {
                return Err(mm("C01/unix-mode", format!("entry {i}: unix_mode {:?} != expected {:?}", f.unix_mode().map(|x| format!("{x:o}")), e.mode.map(|x| format!("{x:o}")))));
            }
            match &e.raw {
                Some(rw) => {
                    if f.size() != rw.usize || f.compressed_size() != rw.csize || f.crc32() != rw.crc {
                        return Err(mm("C14/raw-metadata", format!("entry {i}: size/csize/crc {}/{}/{:#x} != source {}/{}/{:#x}", f.size(), f.compressed_size(), f.crc32(), rw.usize, rw.csize, rw.crc)));
                    }
                    if read_content {
                        if undecodable {
                            let (got, err, _) = read_all(&mut f, &rc.bufs, rw.raw.len() as u64 + 16);
                            if err.is_some() || got != rw.raw {
                                return Err(mm("C14/raw-bytes", format!("entry {i}: raw bytes differ from the source's ({} vs {})", got.len(), rw.raw.len())));
                            }
                        } else if let Some(pl) = &rw.plain {
                            let (got, err, _) = read_all(&mut f, &rc.bufs, pl.len() as u64 + 16);
                            if let Some(er) = err {
                                return Err(mm("C14/decode-error", format!("entry {i}: raw copy does not decode: {er}")));
                            }
                            if &got != pl {
                                return Err(mm("C14/content-mismatch", format!("entry {i}: raw copy decodes to {} bytes, source {}", got.len(), pl.len())));
                            }
                        }
                    }
                }
                None => {
                    if f.size() != e.len() {
                        return Err(mm("C01/size", format!("entry {i}: size() {} != expected {}", f.size(), e.len())));
                    }
                    if read_content {
                        let want_crc = e.crc();
                        if f.crc32() != want_crc {
                            return Err(mm("C01/crc", format!("entry {i}: crc32() {:#x} != CRC of the written bytes {:#x}", f.crc32(), want_crc)));
                        }
                        compare_content(&mut f, e, &rc.bufs, i)?;
                        ctx.probe("entries_read_back");
                    }
                }
            }
        }
        if frozen.is_some() {
            return Ok(());
        }
        // by_name returns the last duplicate
        let mut seen = std::collections::BTreeMap::new();
        for (i, e) in m.entries.iter().enumerate() {
            seen.insert(e.name.clone(), i);
        }
        let mut checked = 0;
        for (name, last) in seen.iter() {
            if checked >= 64 {
                break;
            }
            checked += 1;
            let e = &m.entries[*last];
            let got = if matches!(e.method, 0 | 8 | 12 | 93) && !e.base_encrypted {
                if let Some(pw) = &e.password {
                    match ar.by_name_decrypt(name, pw) {
                        Ok(Ok(f)) => Some(f.header_start()),
                        _ => None,
                    }
                } else {
                    ar.by_name(name).ok().map(|f| f.header_start())
                }
            } else {
                continue;
            };
            if got != Some(header_starts[*last]) {
                if m.entries.iter().filter(|x| &x.name == name).count() > 1 {
                    ctx.probe("duplicate_names_checked");
                }
                return Err(mm("C01/by-name", format!("by_name({}) -> header_start {:?}, expected that of index {} ({})", show(name), got, last, header_starts[*last])));
            }
            if m.entries.iter().filter(|x| &x.name == name).count() > 1 {
                ctx.probe("duplicate_names_checked");
            }
        }
        if let Err(zip::result::ZipError::FileNotFound) = ar.by_index(n).map(|_| ()) {
        } else {
            return Err(mm("C01/out-of-range", "by_index(len) did not return FileNotFound".into()));
        }
        Ok(())
    })();
    ctx.absorb(&io);
    r
}

pub enum IndepOutcome {
    Ok(Parsed),
    Ambiguous(&'static str),
}

/// C02 oracle: strict independent parse + validation + comparison with the model.
pub fn check_indep<S: Src + ?Sized>(img: &S, m: &Model, allow_gaps: bool, ctx: &mut Ctx) -> Result<IndepOutcome, Mismatch> {
    let p = match indep::parse(img) {
        Ok(p) => p,
        Err(e) => return Err(mm("C02/unparseable", format!("independent parser: {e}"))),
    };
    check_indep_parsed(img, p, m, allow_gaps, ctx)
}

/// same, for an image whose end record was located by the caller (e.g. bytes survive after it)
pub fn check_indep_parsed<S: Src + ?Sized>(img: &S, p: Parsed, m: &Model, allow_gaps: bool, ctx: &mut Ctx) -> Result<IndepOutcome, Mismatch> {
    if let Some(why) = indep::ambiguous(img, &p) {
        return Ok(IndepOutcome::Ambiguous(why));
    }
    let pw = |i: usize| m.entries.get(i).and_then(|e| e.password.clone());
    let skip = |i: usize| m.entries.get(i).map(|e| e.raw.as_ref().map(|r| r.plain.is_none()).unwrap_or(false)).unwrap_or(false);
    let relax = |i: usize| m.entries.get(i).map(|e| e.kind == MKind::Base).unwrap_or(false);
    let skip = |i: usize| skip(i) || m.entries.get(i).map(|e| e.base_encrypted).unwrap_or(false);
    let vo = ValidateOpts { passwords: &pw, allow_gaps: allow_gaps || m.had_write_after_raw || m.lenient, decode_limit: 64 << 20, skip_decode: &skip, relax_entry: &relax };
    let bad = indep::validate(img, &p, &vo);
    if !bad.is_empty() {
        return Err(mm("C02/invalid", format!("{} problem(s): {}", bad.len(), bad.iter().take(3).cloned().collect::<Vec<_>>().join("; "))));
    }
    if p.z64.is_some() {
        ctx.probe("zip64_end_record_emitted");
    }
    let mut n = m.entries.len();
    if m.lenient {
        // R6: after a failed call the structure is judged, and the entries that were already final
        ctx.probe("lenient_frozen_prefix_only");
        n = m.frozen.unwrap_or(0).min(m.entries.len());
        if p.centrals.len() < n {
            return Err(mm("C02/entry-count", format!("independent parser sees {} entries, but {n} were complete before the first failed call", p.centrals.len())));
        }
    } else {
        if p.centrals.len() != m.entries.len() {
            return Err(mm("C02/entry-count", format!("independent parser sees {} entries, model has {}", p.centrals.len(), m.entries.len())));
        }
        if p.comment != m.comment {
            return Err(mm("C02/comment", "archive comment differs from the model".into()));
        }
    }
    for (i, (c, e)) in p.centrals.iter().zip(m.entries.iter()).enumerate().take(n) {
        if c.name != e.name.as_bytes() {
            return Err(mm("C02/name-bytes", format!("entry {i}: stored name bytes ({}) differ from the UTF-8 of the given name ({})", c.name.len(), e.name.len())));
        }
        if c.method != e.method {
            return Err(mm("C02/method", format!("entry {i}: method {} != {}", c.method, e.method)));
        }
        if (c.date, c.time) != e.dos {
            return Err(mm("C02/timestamp", format!("entry {i}: DOS words differ")));
        }
        if e.kind != MKind::Base && (c.flags & 1 != 0) != e.password.is_some() {
            return Err(mm("C02/encrypted-flag", format!("entry {i}: encryption flag {} but password given = {}", c.flags & 1, e.password.is_some())));
        }
        match &e.raw {
            Some(rw) => {
                if c.crc != rw.crc || c.usize != rw.usize || c.csize != rw.csize {
                    return Err(mm("C14/raw-metadata", format!("entry {i}: crc/usize/csize {:#x}/{}/{} differ from the source's {:#x}/{}/{}", c.crc, c.usize, c.csize, rw.crc, rw.usize, rw.csize)));
                }
                if let Ok(l) = &p.locals[i] {
                    if c.csize < (1 << 26) {
                        let got = img.fetch(l.data_start, c.csize as usize);
                        if got != rw.raw {
                            return Err(mm("C14/raw-bytes", format!("entry {i}: compressed bytes differ from the source's")));
                        }
                        ctx.probe("raw_extent_compared");
                    }
                }
            }
            None => {
                if c.usize != e.len() {
                    return Err(mm("C02/usize", format!("entry {i}: uncompressed size {} != bytes written {}", c.usize, e.len())));
                }
                if e.is_small() && c.crc != crc32(&e.bytes()) {
                    return Err(mm("C02/crc", format!("entry {i}: recorded CRC differs from the CRC of the bytes written")));
                }
            }
        }
        if c.made_by >> 8 == 3 {
            if !crate::verify::mode_ok(e, Some(c.eattr >> 16)) && c.eattr != 0 {
                return Err(mm("C02/unix-mode", format!("entry {i}: external attributes {:o} != expected {:?}", c.eattr >> 16, e.mode.map(|x| format!("{x:o}")))));
            }
        }
        // C17: extra data placement (only for entries created through the extra-data calls)
        if e.has_extra {
            if let Ok(l) = &p.locals[i] {
                let z = if e.large { 20 } else { 0 };
                if l.extra.len() < z || l.extra[z..] != e.extra_local[..] {
                    return Err(mm("C17/local-extra", format!("entry {i}: local extra ({} bytes after the ZIP64 part) != supplied local part ({} bytes)", l.extra.len().saturating_sub(z), e.extra_local.len())));
                }
                if e.large && (l.extra.len() < 4 || indep::le16(&l.extra, 0) != 1) {
                    return Err(mm("C17/local-extra", format!("entry {i}: large_file entry without leading ZIP64 record")));
                }
            }
            let cz = c.z64_record_len.map(|n| n + 4).unwrap_or(0);
            if c.extra.len() < cz || c.extra[cz..] != e.extra_central[..] {
                return Err(mm("C17/central-extra", format!("entry {i}: central extra ({} bytes) != supplied central part ({} bytes)", c.extra.len().saturating_sub(cz), e.extra_central.len())));
            }
        }
    }
    Ok(IndepOutcome::Ok(p))
}

/// CRC of a (possibly huge) byte range of a source
pub fn crc_of_range<S: Src + ?Sized>(s: &S, pos: u64, len: u64) -> u32 {
    let mut c = Crc::new();
    let mut off = 0u64;
    while off < len {
        let n = (len - off).min(1 << 20) as usize;
        let b = s.fetch(pos + off, n);
        c.update(&b);
        off += n as u64;
    }
    c.finish()
}
